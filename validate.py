#!/usr/bin/env python3-vt
import json, jsonschema, glob, sys
jsonschema.validate(json.load(open('/verif/MANIFEST.json')), json.load(open('/root/.vp/MANIFEST.schema.json')))
es = json.load(open('/root/.vp/EVIDENCE.schema.json'))
for f in sorted(glob.glob('/verif/evidence/*.json')):
    jsonschema.validate(json.load(open(f)), es)
    print('ok', f)
print('manifest ok')
