#!/usr/bin/env python3
"""Ad-hoc probe: evaluate each argument (or each line of stdin) as an independent noulith program in the
engine and print status / canonical value / error. Not part of any registered check."""
import json
import sys

from vlib.engine import Engine


def main():
    progs = sys.argv[1:] or [l.rstrip("\n") for l in sys.stdin if l.strip()]
    e = Engine()
    rs = e.run({"steps": progs, "iso": True, "fuel": 200000, "depth": 300, "step_ms": 3000})
    for p, r in zip(progs, rs):
        print(p)
        print("   ->", r.get("st"), json.dumps(r.get("v")) if "v" in r else "", (r.get("e") or "")[:160], ("out=" + repr(r["o"])) if r.get("o") else "")
    e.stop()


if __name__ == "__main__":
    main()
