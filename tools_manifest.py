#!/usr/bin/env python3
"""Regenerates MANIFEST.json from the table below (keeps it valid at all times)."""
import json, os
HERE = os.path.dirname(os.path.abspath(__file__))
CLAIMED = {
 # id: (category, text, note, technique, design_ref)
}
NOT_YET = {}
exec(open(os.path.join(HERE, "manifest_table.py")).read())
props = [json.loads(l) for l in open(os.path.join(HERE, "properties.jsonl"))]
checks = []
for p in props:
    i = p["id"]
    if i in CLAIMED:
        cat, text, note, tech, ref = CLAIMED[i]
        checks.append({
            "property_id": i,
            "quick_cmd": "./check %s --tier quick" % i,
            "thorough_cmd": "./check %s --tier thorough" % i,
            "evidence_file": "/verif/evidence/%s.json" % i,
            "replay_cmd_template": "./check replay {path}",
            "engine": "nlx",
            "level_claimed": {"category": cat, "text": text, "design_ref": ref},
            "level_note": note,
            "technique": tech,
        })
m = {
 "version": 1,
 "setup_cmd": "./check build",
 "hooks": {
  "guard": "betaveros_noulith_verif",
  "enable": "RUSTFLAGS=--cfg betaveros_noulith_verif (set in /verif/engine/.cargo/config.toml; the engine crate depends on noulith by path=/repo, so every check rebuilds /repo's working tree with the hook on)",
  "baseline_off_cmd": "cd /repo && cargo nextest run --workspace --no-fail-fast --offline --test-threads 8",
  "source_commits": ["9fbc271"],
  "add_only": True,
 },
 "engines": [{"name": "nlx", "path": "/verif/engine", "serves_properties": sorted(CLAIMED),
   "kind_free_text": "Rust binary linking the real noulith crate (path=/repo): evaluates generated programs, returns canonical values, sharing shape, allocation counters, output, panic sites; driven by the Python explorer in /verif/vlib which enumerates the bounded spaces exhaustively and holds the reference models"}],
 "checks": checks,
 "not_applicable": [{"property_id": i, "reason": r} for i, r in sorted(NOT_YET.items()) if i not in CLAIMED],
 "notes": "exit 0 = held (KNOWN-FINDING lines allowed), 1 = VIOLATION line printed, 2 = machinery failure (never a verdict). See DESIGN.md.",
}
json.dump(m, open(os.path.join(HERE, "MANIFEST.json"), "w"), indent=1)
print("MANIFEST.json: %d checks, %d not_applicable" % (len(checks), len(m["not_applicable"])))
