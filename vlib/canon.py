"""Canonical values: decoding the engine's canon JSON into Python, and building expectations.

Decoded Python representation (level-preserving):
  null -> None;  int -> int;  rational -> Fraction (a Q wrapper keeps the level when integral);
  float -> F(float) wrapper (bit-exact compare);  complex -> C(re, im);  str -> str;
  bytes -> bytes;  list -> list;  vector -> Vec(list);  dict -> Dict(entries, default);
  func -> Fn(display);  instance -> Inst(name, fields);  stream -> Strm(display, prefix, tail)
"""
import math
import struct
import sys
from fractions import Fraction

sys.set_int_max_str_digits(0)


def f2hex(x):
    return "%016x" % struct.unpack(">Q", struct.pack(">d", x))[0]


def hex2f(h):
    return struct.unpack(">d", struct.pack(">Q", int(h, 16)))[0]


# ---- constructors of canon JSON (what the engine would print) -----------------------------
def cI(n):
    return ["i", str(n)]


def cQ(fr):
    fr = Fraction(fr)
    return ["q", str(fr.numerator), str(fr.denominator)]


def cF(x):
    return ["f", f2hex(float(x))]


def cS(s):
    return ["s", s]


def cB(b):
    return ["b", list(b)]


def cL(xs):
    return ["l", list(xs)]


def cV(xs):
    return ["v", list(xs)]


def cNum(x):
    """Python number -> canon at the natural level: int -> int, Fraction -> rational, float -> float."""
    if isinstance(x, bool):
        return cI(int(x))
    if isinstance(x, int):
        return cI(x)
    if isinstance(x, Fraction):
        return cQ(x)
    if isinstance(x, float):
        return cF(x)
    raise TypeError(x)


def norm(v):
    """Erase representation detail (big vs small int) from a canon value, recursively."""
    if isinstance(v, list):
        if v and v[0] == "I":
            return ["i", v[1]]
        return [norm(x) for x in v]
    return v


def kind(v):
    if v is None:
        return "null"
    return {"i": "int", "I": "int", "q": "rational", "f": "float", "c": "complex", "s": "str", "b": "bytes",
            "l": "list", "v": "vector", "d": "dict", "F": "func", "o": "instance", "S": "stream"}[v[0]]


def is_nan_canon(v):
    if isinstance(v, list) and v and v[0] == "f":
        x = hex2f(v[1])
        return x != x
    return False


def num_value(v):
    """canon number -> exact Python value (int / Fraction / float / complex)."""
    t = v[0]
    if t in ("i", "I"):
        return int(v[1])
    if t == "q":
        return Fraction(int(v[1]), int(v[2]))
    if t == "f":
        return hex2f(v[1])
    if t == "c":
        return complex(hex2f(v[1]), hex2f(v[2]))
    raise TypeError(v)


def py(v):
    """canon -> plain Python (levels erased except float vs exact): for loose comparisons."""
    if v is None:
        return None
    t = v[0]
    if t in ("i", "I", "q", "f", "c"):
        return num_value(v)
    if t == "s":
        return v[1]
    if t == "b":
        return bytes(v[1])
    if t == "l":
        return [py(x) for x in v[1]]
    if t == "v":
        return ("vec", [py(x) for x in v[1]])
    if t == "d":
        return ("dict", [(py(k), py(x)) for k, x in v[1]], py(v[2]) if len(v) > 2 else "nodefault")
    if t == "F":
        return ("func", v[1])
    if t == "o":
        return ("inst", v[1], [py(x) for x in v[2]])
    if t == "S":
        return ("stream", v[1], [py(x) for x in v[2]], v[3])
    raise TypeError(v)


def same_float(a, b):
    return f2hex(a) == f2hex(b) or (a != a and b != b)


# ---- noulith source literals for Python values --------------------------------------------
def lit_int(n):
    return str(n) if n >= 0 else "(%d)" % n


def lit_frac(fr):
    fr = Fraction(fr)
    s = "(%d/%d)" % (abs(fr.numerator), fr.denominator)
    return s if fr >= 0 else "(-%s)" % s


def lit_float(x):
    if x != x:
        return "(0.0/0.0)"
    if x == math.inf:
        return "(1.0/0.0)"
    if x == -math.inf:
        return "(-(1.0/0.0))"
    r = repr(abs(x))
    if "e" in r or "E" in r:
        # noulith lexes 1e300 as float already
        m, e = r.lower().split("e")
        if "." not in m:
            m += ".0"
        r = "%se%d" % (m, int(e))
    elif "." not in r:
        r += ".0"
    neg = math.copysign(1.0, x) < 0
    return "(-%s)" % r if neg else r


def lit_str(s):
    out = ['"']
    for ch in s:
        if ch == '"':
            out.append('\\"')
        elif ch == "\\":
            out.append("\\\\")
        elif ch == "\n":
            out.append("\\n")
        elif ch == "\t":
            out.append("\\t")
        elif ch == "\r":
            out.append("\\r")
        elif ch == "\0":
            out.append("\\0")
        else:
            out.append(ch)
    out.append('"')
    return "".join(out)


def lit_bytes(b):
    return "B[" + ",".join(str(x) for x in b) + "]" if b else "(B[1] drop 1)"


def resort(v):
    """Re-sort dict entries (recursively) by a Python-side key so that got/expected compare as sets."""
    import json as _json
    if isinstance(v, list):
        if v and v[0] == "d":
            ents = [[resort(k), resort(x)] for k, x in v[1]]
            ents.sort(key=lambda e: _json.dumps(e[0], sort_keys=True))
            out = ["d", ents]
            if len(v) > 2:
                out.append(resort(v[2]))
            return out
        return [resort(x) for x in v]
    return v
