"""C03 - infix chains group by the operators' runtime precedence and associativity.

Families
 A  tree-building closures bound by the engine with every combination of precedence in {1, 2, 3, NaN}
    and associativity in {L, R} (the language cannot make a right-associative closure; the public
    Obj::Func(_, Precedence(p, assoc)) constructor can): all chains with 1..4 (quick) / 1..5
    (thorough) operators, as a plain chain, as a chain whose operand and operator expressions log
    their evaluation, and as underscore sections applied later.
 B  the same closures configured through the language (f::precedence = p, swap f, g, tuple
    assignment), all left-associative.
 C  numeric builtins with their real precedences (+ - * ^ < <= == >= max min): all chains up to the
    bound; comparison operators merge exactly when the left one would be reduced first.
 D  chain-merging list builtins (zip/with, **, til/to/by, fold/scan/from, ++, +) against the explicit
    prefix-call rendering of the reference tree, evaluated by the same interpreter.
Reference: recursive precedence climbing with the pairwise rule "the left operator is applied
before the next one iff it is tighter, or they tie and it is left-associative", written
independently of the interpreter's shunting loop.
"""
import itertools
import json
from fractions import Fraction

from ..canon import cI, cQ, norm
from ..core import Case, Violation
from .. import engine as E

PROP = "C03"
LEVEL = "exploration"
TECHNIQUE = "bounded exhaustive enumeration of operator chains x precedence/associativity configurations on the real interpreter vs an independent precedence-climbing reference"
RULE = ("every chain up to the length bound under every precedence/associativity assignment (families A, B), every chain over the "
        "builtin operator alphabets (C, D); non-trivial = at least two operators; distinct by configuration + program text")
ASSUMPTIONS = ["NaN precedences are executed (no crash, each expression evaluated once) but their grouping is not asserted",
               "destructuring chains on the left of `=` are covered under C12"]
SHARDED = True
NAN = "nan"


# ---------------------------------------------------------------- reference grouping
def before(L, N):
    """left operator L (prec, assoc) is applied before the next operator N"""
    pl, al = L[0], L[1]
    pn = N[0]
    if pl == NAN or pn == NAN:
        return al == "L"
    if pl > pn:
        return True
    if pl < pn:
        return False
    return al == "L"


def group(ops, chains=None):
    """ops: list of (prec, assoc, name). Returns a tree: leaf = int index of operand; node = [opindexes, children]
    where opindexes lists the merged operators and children the operand subtrees."""
    n = len(ops)
    chains = chains or (lambda a, b: False)

    def parse(pos, left):
        lhs = pos
        i = pos
        while i < n:
            N = ops[i]
            if left is not None and before(left, N):
                break
            rhs, j = parse(i + 1, N)
            node = [[i], [lhs, rhs]]
            i = j
            # merging: the node's operator would now be reduced (its right operand is complete);
            # if it declares itself chainable with the next operator they become one n-ary node
            while i < n and chains(ops[node[0][0]], ops[i]):
                nxt = ops[i]
                # the merged node keeps the left operator's precedence and associativity
                rhs2, j2 = parse(i + 1, ops[node[0][0]])
                node[0].append(i)
                node[1].append(rhs2)
                i = j2
            lhs = node
        return lhs, i
    t, _ = parse(0, None)
    return t


# ---------------------------------------------------------------- family A / B helpers
def tree_canon(t, names, vals):
    if isinstance(t, int):
        return cI(vals[t])
    (opix, kids) = t
    assert len(opix) == 1
    return ["l", [["s", names[opix[0]]], tree_canon(kids[0], names, vals), tree_canon(kids[1], names, vals)]]


def hole_sets(n):
    pos = list(range(n + 1))
    out = [[p] for p in pos] + [pos]
    if n >= 1:
        out.append([0, n])
    seen = []
    for h in out:
        if h not in seen:
            seen.append(h)
    return seen


def famA_case(cfg):
    """cfg: list of (prec, assoc)"""
    n = len(cfg)
    names = ["f%d" % (i + 1) for i in range(n)]
    vals = [10 + i for i in range(n + 1)]
    bind = [{"name": names[i], "src": '\\a, b -> ["%s", a, b]' % names[i], "prec": cfg[i][0], "assoc": cfg[i][1]} for i in range(n)]
    steps, kinds = [], []
    plain = " ".join(str(vals[0]) if i == 0 else "%s %d" % (names[i - 1], vals[i]) for i in range(n + 1))
    steps.append(plain)
    kinds.append("plain")
    logged = "log := []; r := (log append= 0; %d)" % vals[0]
    for i in range(n):
        logged += ' `(log append= "%s"; %s)` (log append= %d; %d)' % (names[i], names[i], i + 1, vals[i + 1])
    logged += "; [r, log]"
    steps.append(logged)
    kinds.append("logged")
    for H in hole_sets(n):
        parts = []
        for i in range(n + 1):
            opd = "_" if i in H else str(vals[i])
            parts.append(opd if i == 0 else "%s %s" % (names[i - 1], opd))
        steps.append("(%s)(%s)" % (" ".join(parts), ", ".join(str(vals[i]) for i in H)))
        kinds.append("section")
    return Case(steps, {"fam": "A", "cfg": [list(c) for c in cfg], "kinds": kinds}, bind=bind, iso=True)


PRECS = [1, 2, 3]
ASSOCS = ["L", "R"]


# ---------------------------------------------------------------- family C: numeric builtins
NUM_OPS = ["+", "-", "*", "^", "<", "<=", "==", ">=", "max", "min"]
CMP = {"<", "<=", "==", ">=", ">", "!="}
_PREC = None


def builtin_precs():
    """(prec, assoc) of every operator used, read from the real interpreter"""
    global _PREC
    if _PREC is None:
        e = E.Engine()
        names = sorted(set(NUM_OPS + LIST_OPS + ["with", "by", "from"]))
        try:
            rs = e.run({"steps": ["(%s)" % n if not n[0].isalpha() else n for n in names], "iso": True})
        finally:
            e.stop()
        _PREC = {}
        for n, r in zip(names, rs):
            v = r["v"]
            _PREC[n] = (v[2], v[3])
    return _PREC


def num_eval(t, ops, vals):
    if isinstance(t, int):
        return vals[t]
    opix, kids = t
    xs = [num_eval(k, ops, vals) for k in kids]
    if xs.count("raise"):
        return "raise"
    if xs.count("skip"):
        return "skip"
    names = [ops[i] for i in opix]
    if names[0] in CMP:
        ok = True
        for a, o, b in zip(xs, names, xs[1:]):
            ok = ok and {"<": a < b, "<=": a <= b, "==": a == b, ">=": a >= b}[o]
        return int(ok)
    a, b = xs
    o = names[0]
    if o == "+":
        return a + b
    if o == "-":
        return a - b
    if o == "*":
        return a * b
    if o == "max":
        return max(a, b)
    if o == "min":
        return min(a, b)
    if o == "^":
        if isinstance(b, Fraction) and b.denominator != 1:
            return "skip"
        b = int(b)
        if abs(b) > 64 or (isinstance(a, (int, Fraction)) and abs(a) > 10 ** 30):
            return "skip"
        if b < 0:
            if a == 0:
                return "skip"
            return Fraction(1) / (Fraction(a) ** (-b))
        return a ** b
    raise KeyError(o)


def num_chains(a, b):
    return a[2] in CMP and b[2] in CMP


# ---------------------------------------------------------------- family D: list builtins vs prefix rendering
LIST_OPS = ["zip", "++", "**", "til", "to", "fold", "scan", "+", ".+", "lazy_zip", "ziplongest", "merge", "replace", "&&&", "***", "equals", "split", "rsplit", "split_re", "rearrange"]
# every builtin whose try_chain accepts a follower (src/lib.rs): the follower names it merges with
CHAIN_TABLE = {"zip": {"zip", "with"}, "lazy_zip": {"lazy_zip", "with"}, "ziplongest": {"ziplongest", "with"}, "**": {"**"}, "til": {"by"}, "to": {"by"},
               "fold": {"from"}, "scan": {"from"}, "merge": {"merge", "with"}, "replace": {"with"}, "&&&": {"&&&"}, "***": {"***"}, "equals": {"equals"},
               "split": {"by"}, "rsplit": {"by"}, "split_re": {"by"}, "rearrange": {"with"}}
LIST_ALL = LIST_OPS + ["with", "by", "from"]
# (operands, wrapper): the wrapper applies a chain that builds a function, so that an n-ary merge is told from nested pairs
OPERAND_PATTERNS = [(["[1, 2]", "[3, 4]", "[5, 6]", "[7, 8]"], "%s"), (["1", "7", "2", "3"], "%s"), (["[1, 2, 3]", "(+)", "10", "[4]"], "%s"),
                    (["[1, 2]", "[3, 4]", "(+)", "[5]"], "%s"), (["1", "9", "3", "(+)"], "%s"), (["[[1], [2]]", "(++)", "[0]", "[9]"], "%s"),
                    (["(_ + 1)", "(_ * 2)", "(_ - 3)", "(_ * 5)"], "(%s)(10)"), (["(_ + 1)", "(_ * 2)", "(_ - 3)", "(_ * 5)"], "(%s)([1, 2, 3])"),
                    (["(_ + 1)", "(_ * 2)", "(_ - 3)", "(_ * 5)"], "(%s)([1, 2])"),
                    (['"abcab"', '"b"', '"x"', '"a"'], "%s"), (['"a,b,c,d"', '","', "2", "3"], "%s"), (["{1: 2}", "{1: 3}", "(+)", "{1: 1}"], "%s"),
                    (["{1: 2}", "{1: 3}", "{1: 10}", "(+)"], "%s")]     # one key per dict: iteration order of a larger dict is not fixed


def list_chains(a, b):
    return b[2] in CHAIN_TABLE.get(a[2], ())


def prefix_src(t, ops, operands):
    if isinstance(t, int):
        return operands[t]
    opix, kids = t
    name = ops[opix[0]]
    return "%s(%s)" % (name, ", ".join(prefix_src(k, ops, operands) for k in kids))


# ---------------------------------------------------------------- enumeration
def bounds(tier):
    return {"A_max_ops": 4 if tier == "quick" else 5, "A_precedences": [1, 2, 3, "NaN"], "A_assoc": ["L", "R"],
            "B_max_ops": 3 if tier == "quick" else 4, "C_ops": NUM_OPS, "C_max_ops": 3 if tier == "quick" else 4,
            "D_ops": LIST_ALL, "D_max_ops": 2 if tier == "quick" else 3, "D_operand_patterns": len(OPERAND_PATTERNS)}


def cases(tier, shard, nshards):
    cnt = 0

    def mine():
        nonlocal cnt
        cnt += 1
        return cnt % nshards == shard
    # ---- A
    maxn = 4 if tier == "quick" else 5
    opts = [(p, a) for p in PRECS for a in ASSOCS]
    for n in range(1, maxn + 1):
        for cfg in itertools.product(opts, repeat=n):
            if mine():
                yield famA_case(cfg)
    nanopts = opts + [(NAN, "L"), (NAN, "R")]
    for n in range(1, 4):
        for cfg in itertools.product(nanopts, repeat=n):
            if any(c[0] == NAN for c in cfg) and mine():
                yield famA_case(cfg)
    # ---- B: configured through the language
    labels = ["f", "g", "h"]
    maxb = 3 if tier == "quick" else 4
    for pa in itertools.product([1, 2, 3, NAN], repeat=3):
        for mode in ("assign", "swap", "tuple"):
            if not mine():
                continue
            pre = ['%s := \\a, b -> ["%s", a, b]' % (l, l) for l in labels]
            pre += ["%s::precedence = %s" % (l, "0.0 / 0.0" if p == NAN else "%d" % p) for l, p in zip(labels, pa)]
            held = {l: (l, p) for l, p in zip(labels, pa)}     # variable -> (label it builds, precedence)
            if mode == "swap":
                pre.append("swap f, g")
                held["f"], held["g"] = held["g"], held["f"]
            elif mode == "tuple":
                pre.append("f, g, h = h, f, g")
                held = {"f": held["h"], "g": held["f"], "h": held["g"]}
            steps, metas = [], []
            for n in range(1, maxb + 1):
                for seq in itertools.product(labels, repeat=n):
                    vals = [10 + i for i in range(n + 1)]
                    steps.append(" ".join(str(vals[0]) if i == 0 else "%s %d" % (seq[i - 1], vals[i]) for i in range(n + 1)))
                    metas.append(list(seq))
            yield Case(steps, {"fam": "B", "held": {k: list(v) for k, v in held.items()}, "seqs": metas}, pre=pre, iso=True)
    # ---- B (zeros): every spelling of precedence zero is the same level - negative zero (literal and computed), positive zero, the
    # integer 0 and the default of a closure that was never configured tie with each other (the left operator's associativity decides)
    zero_spellings = [("-0.0", 0), ("0.0 * (0 - 1)", 0), (None, 0), ("0.0", 0), ("0", 0), ("1", 1), ("-1", -1)]
    for pa in itertools.product(zero_spellings, repeat=3):
        if sum(1 for sp, _ in pa if sp in ("-0.0", "0.0 * (0 - 1)")) == 0 or not mine():
            continue
        pre = ['%s := \\a, b -> ["%s", a, b]' % (l, l) for l in labels]
        pre += ["%s::precedence = %s" % (l, sp) for l, (sp, _) in zip(labels, pa) if sp is not None]
        held = {l: (l, p) for l, (_, p) in zip(labels, pa)}
        steps, metas = [], []
        for n in range(1, 4):
            for seq in itertools.product(labels, repeat=n):
                vals = [10 + i for i in range(n + 1)]
                steps.append(" ".join(str(vals[0]) if i == 0 else "%s %d" % (seq[i - 1], vals[i]) for i in range(n + 1)))
                metas.append(list(seq))
        yield Case(steps, {"fam": "B", "held": {k: list(v) for k, v in held.items()}, "seqs": metas, "zeros": [sp for sp, _ in pa]}, pre=pre, iso=True)
    # ---- C: numeric builtins
    maxc = 3 if tier == "quick" else 4
    operands = [2, 3, 1, 2, 3]
    for n in range(1, maxc + 1):
        for seq in itertools.product(NUM_OPS, repeat=n):
            if not mine():
                continue
            vals = operands[:n + 1]
            src = " ".join(str(vals[0]) if i == 0 else "%s %d" % (seq[i - 1], vals[i]) for i in range(n + 1))
            yield Case(src, {"fam": "C", "ops": list(seq), "vals": vals})
            # the same chain as an underscore section with the hole at every operand position, applied to the missing operand:
            # a section groups (and merges comparisons) exactly like the direct chain
            for h in range(n + 1):
                toks = [str(v) for v in vals]
                toks[h] = "_"
                sect = " ".join(toks[0] if i == 0 else "%s %s" % (seq[i - 1], toks[i]) for i in range(n + 1))
                yield Case("(%s)(%d)" % (sect, vals[h]), {"fam": "C", "ops": list(seq), "vals": vals, "hole": h})
            if n >= 2 and any(o in CMP for o in seq):
                vals2 = [-1, 2, 2, 5, 1][:n + 1]
                src2 = " ".join(("(%d)" % vals2[0] if vals2[0] < 0 else str(vals2[0])) if i == 0 else "%s %d" % (seq[i - 1], vals2[i]) for i in range(n + 1))
                yield Case(src2, {"fam": "C", "ops": list(seq), "vals": vals2})
    # ---- E: chainable comparison builtins whose precedence was reassigned (bound as aliases with every
    #         precedence in {0, 3, 5} and both associativities) mixed with + (4), * (5) and max (0): a merged
    #         comparison keeps the LEFT operator's precedence and associativity
    aliases = []
    for base, nm in (("<", "lt"), ("<=", "le")):
        for p in (0, 3, 5):
            for a in ("L", "R"):
                aliases.append(("%s%d%s" % (nm, p, a.lower()), base, p, a))
    bindE = [{"name": n, "src": "(%s)" % base, "prec": p, "assoc": a} for (n, base, p, a) in aliases]
    namesE = [a[0] for a in aliases] + ["+", "*", "max"]
    maxe = 3 if tier == "quick" else 4
    for n in range(2, maxe + 1):
        for seq in itertools.product(namesE, repeat=n):
            if sum(1 for o in seq if o[0] == "l") < 2:
                continue      # at least two comparison aliases, otherwise family C covers it
            if n == 4 and tier != "quick" and len(set(seq)) < 2:
                continue
            if not mine():
                continue
            steps = []
            for vals in ([1, 2, 3, 4, 5], [3, 2, 2, 1, 0]):
                v = vals[:n + 1]
                steps.append(" ".join(str(v[0]) if i == 0 else "%s %d" % (seq[i - 1], v[i]) for i in range(n + 1)))
            yield Case(steps, {"fam": "E", "ops": list(seq)}, bind=bindE, iso=True)
    # ---- F: a RIGHT-associative builtin (^, and an alias of it) whose precedence is assigned at run time - also to the value it
    #         already has: the assignment changes the level only, the associativity stays
    for pnew in (4, 5, 6, 7):
        for target, opname in (("^", "^"), ("pw", "pw")):
            pre = (["pw := ^"] if target == "pw" else []) + ["%s::precedence = %d" % (target, pnew)]
            maxf = 2 if tier == "quick" else 3
            for n in range(1, maxf + 1):
                for seq in itertools.product([opname, "+", "*", "-"], repeat=n):
                    if opname not in seq:
                        continue
                    if not mine():
                        continue
                    vals = [2, 3, 2, 1][:n + 1]
                    src = " ".join(str(vals[0]) if i == 0 else "%s %d" % (seq[i - 1], vals[i]) for i in range(n + 1))
                    steps = [src]
                    for h in range(n + 1):
                        toks = [str(v) for v in vals]
                        toks[h] = "_"
                        steps.append("(%s)(%d)" % (" ".join(toks[0] if i == 0 else "%s %s" % (seq[i - 1], toks[i]) for i in range(n + 1)), vals[h]))
                    yield Case(steps, {"fam": "F", "ops": ["^" if o == opname else o for o in seq], "vals": vals, "prec": pnew, "alias": target}, pre=pre, iso=True)
    # ---- D: list builtins vs prefix rendering
    maxd = 2 if tier == "quick" else 3
    for n in range(1, maxd + 1):
        for seq in itertools.product(LIST_ALL, repeat=n):
            if seq[0] in ("with", "by", "from"):
                continue
            if not mine():
                continue
            for pat, wrap in OPERAND_PATTERNS:
                opd = pat[:n + 1]
                infix = " ".join(opd[0] if i == 0 else "%s %s" % (seq[i - 1], opd[i]) for i in range(n + 1))
                meta = {"fam": "D", "ops": list(seq), "operands": opd}
                yield Case([wrap % infix, wrap % _d_prefix(meta)], meta, iso=True)
                for h in range(n + 1):
                    toks = list(opd)
                    toks[h] = "_"
                    sect = " ".join(toks[0] if i == 0 else "%s %s" % (seq[i - 1], toks[i]) for i in range(n + 1))
                    yield Case([wrap % ("(%s)(%s)" % (sect, opd[h])), wrap % _d_prefix(meta)], dict(meta, hole=h), iso=True)


def _d_prefix(m):
    P = builtin_precs()
    ops = [(P[o][0], P[o][1], o) for o in m["ops"]]
    t = group(ops, list_chains)
    return prefix_src(t, m["ops"], m["operands"])



def nontrivial(case, rs):
    m = case.meta
    if m["fam"] == "A":
        return len(m["cfg"]) >= 2
    if m["fam"] in ("C", "D", "E", "F"):
        return len(m["ops"]) >= 2
    return True


def judge(case, rs):
    m = case.meta
    fam = m["fam"]
    if fam == "A":
        return judge_A(case, rs)
    if fam == "B":
        return judge_B(case, rs)
    if fam == "C":
        return judge_C(case, rs)
    if fam == "E":
        return judge_E(case, rs)
    if fam == "F":
        return judge_F(case, rs)
    return judge_D(case, rs)


def judge_F(case, rs):
    m = case.meta
    P = builtin_precs()
    ops = [((m["prec"], "R", "^") if o == "^" else (P[o][0], P[o][1], o)) for o in m["ops"]]
    t = group(ops, num_chains)
    exp = num_eval(t, m["ops"], m["vals"])
    if exp in ("skip", "raise"):
        return []
    want = cI(int(exp)) if Fraction(exp).denominator == 1 else cQ(Fraction(exp))
    sig = "C03 F %s::precedence=%d ops=%s" % (m["alias"], m["prec"], " ".join(m["ops"]))
    for src, r in zip(case.steps, rs):
        if r.get("st") != "ok":
            return [Violation(sig + " result=" + str(r.get("st")), "%s after %s -> %s %s, expected %s" % (src, case.pre, r.get("st"), r.get("e"), want), want, r.get("st"))]
        if norm(r["v"]) != want:
            return [Violation(sig + " result=wrong-grouping", "%s after %s gave %s; ^ keeps its right associativity at level %d, so the reference grouping gives %s" % (
                src, list(case.pre), norm(r["v"]), m["prec"], want), want, norm(r["v"]))]
    return []


def judge_E(case, rs):
    m = case.meta
    P = builtin_precs()
    ops, names = [], []
    for o in m["ops"]:
        if o[0] == "l" and o[:2] in ("lt", "le"):
            base = "<" if o[:2] == "lt" else "<="
            ops.append((int(o[2]), o[3].upper(), base))
            names.append(base)
        else:
            ops.append((P[o][0], P[o][1], o))
            names.append(o)
    t = group(ops, num_chains)
    out = []
    for src, vals, r in zip(case.steps, ([1, 2, 3, 4, 5], [3, 2, 2, 1, 0]), rs):
        exp = num_eval(t, names, vals[:len(ops) + 1])
        if exp in ("skip", "raise"):
            continue
        want = cI(int(exp))
        sig = "C03 E ops=%s" % " ".join(m["ops"])
        if r.get("st") != "ok":
            out.append(Violation(sig + " result=" + str(r.get("st")), "%s -> %s %s, expected %s" % (src, r.get("st"), r.get("e"), want), want, r.get("st")))
        elif norm(r["v"]) != want:
            out.append(Violation(sig + " result=wrong-grouping", "%s gave %s, reference grouping gives %s" % (src, norm(r["v"]), want), want, norm(r["v"])))
    return out[:1]


def judge_D(case, rs):
    m = case.meta
    a, b = rs[0], rs[1]
    sig = "C03 D ops=%s" % " ".join(m["ops"])
    oka, okb = a.get("st") == "ok", b.get("st") == "ok"
    if any(r.get("st") in ("panic", "abort", "hang") for r in (a, b)):
        return []   # C14's
    if oka != okb:
        return [Violation(sig + " result=status-differs", "%s -> %s %s but %s -> %s %s" % (case.steps[0], a.get("st"), a.get("e", a.get("v")), case.steps[1], b.get("st"), b.get("e", b.get("v"))), b.get("st"), a.get("st"))]
    if oka and norm(a["v"]) != norm(b["v"]):
        return [Violation(sig + " result=wrong-grouping", "%s gave %s but the reference grouping %s gives %s" % (case.steps[0], json.dumps(norm(a["v"]))[:200], case.steps[1], json.dumps(norm(b["v"]))[:200]), norm(b["v"]), norm(a["v"]))]
    return []


def cfg_sig(cfg):
    return "/".join("%s%s" % (p, a) for p, a in cfg)


def judge_A(case, rs):
    m = case.meta
    cfg = [tuple(c) for c in m["cfg"]]
    n = len(cfg)
    names = ["f%d" % (i + 1) for i in range(n)]
    vals = [10 + i for i in range(n + 1)]
    has_nan = any(c[0] == NAN for c in cfg)
    # a NaN precedence is compared like a tie (the property's anchor for Precedence::tighter_than_when_before says so, and so does
    # the code: partial_cmp -> None is handled with Equal): the left operator's associativity decides
    t = group([(p, a, names[i]) for i, (p, a) in enumerate(cfg)])
    want = tree_canon(t, names, vals)
    wantlog = ["l", []]
    for i in range(n + 1):
        if i:
            wantlog[1].append(["s", names[i - 1]])
        wantlog[1].append(cI(i))
    out = []
    for src, kind, r in zip(case.steps, m["kinds"], rs):
        st = r.get("st")
        sig = "C03 A form=%s n=%d cfg=%s" % (kind, n, cfg_sig(cfg) if n <= 3 else "len%d" % n)
        if st != "ok":
            out.append(Violation(sig + " result=" + str(st), "%s under %s -> %s %s" % (src, cfg_sig(cfg), st, r.get("e")), want, st))
            continue
        v = norm(r["v"])
        if kind == "logged":
            if v[0] != "l" or len(v[1]) != 2:
                out.append(Violation(sig + " result=malformed", "%s -> %s" % (src, v), None, v))
                continue
            val, log = v[1]
            if log != wantlog:
                out.append(Violation(sig + " result=evaluation-order", "%s under %s: evaluation log %s, expected %s" % (src, cfg_sig(cfg), log, wantlog), wantlog, log))
            v = val
        if want is not None and v != want:
            out.append(Violation(sig + " result=wrong-grouping", "%s under %s gave %s, precedence climbing gives %s" % (src, cfg_sig(cfg), json.dumps(v), json.dumps(want)), want, v))
    return out


def judge_B(case, rs):
    m = case.meta
    held = m["held"]
    out = []
    for src, seq, r in zip(case.steps, m["seqs"], rs):
        n = len(seq)
        vals = [10 + i for i in range(n + 1)]
        ops = [(held[v][1], "L", held[v][0]) for v in seq]
        t = group(ops)
        want = tree_canon(t, [o[2] for o in ops], vals)
        sig = "C03 B n=%d precs=%s" % (n, "/".join(str(o[0]) for o in ops)) + (" zero-spellings" if m.get("zeros") else "")
        if r.get("st") != "ok":
            out.append(Violation(sig + " result=" + str(r.get("st")), "%s after %s -> %s %s" % (src, list(case.pre), r.get("st"), r.get("e")), want, r.get("st")))
        elif norm(r["v"]) != want:
            out.append(Violation(sig + " result=wrong-grouping", "%s after %s gave %s, expected %s" % (src, list(case.pre)[3:], json.dumps(norm(r["v"])), json.dumps(want)), want, norm(r["v"])))
    return out


def judge_C(case, rs):
    m = case.meta
    P = builtin_precs()
    ops = [(P[o][0], P[o][1], o) for o in m["ops"]]
    t = group(ops, num_chains)
    exp = num_eval(t, m["ops"], m["vals"])
    r = rs[0]
    sig = "C03 C ops=%s" % " ".join(m["ops"])
    if exp in ("skip", "raise"):
        return []
    want = cQ(exp) if isinstance(exp, Fraction) and exp.denominator != 1 else cI(int(exp))
    if r.get("st") != "ok":
        return [Violation(sig + " result=" + str(r.get("st")), "%s -> %s %s, expected %s" % (case.steps[0], r.get("st"), r.get("e"), want), want, r.get("st"))]
    got = norm(r["v"])
    if got != want and not (got[0] == "q" and want[0] == "i" and got[2] == "1" and got[1] == want[1]):
        return [Violation(sig + " result=wrong-grouping", "%s gave %s, reference grouping gives %s" % (case.steps[0], got, want), want, got)]
    return []
