"""C15 - lexing and parsing are total and number/string literals decode exactly.

Totality (parse only, on the real parser): (a) all token sequences up to length 3 (quick) / 4 (thorough)
over a 56-token alphabet, joined with and without spaces; (b) all strings up to length 4 / 5 over a
22-character alphabet reaching every lexer branch; (c) every single-token deletion, duplication and
replacement at every position of every corpus program (the suite's one-liners, examples/*.noul);
(d) nesting ramps of every bracket / lambda / if / for to depth 64; (e) every format-string body up to
length 5 over `{ } # x 0 9 < a +`; (f) digit runs at every integer-width boundary x every suffix character x a following
character. Decoding (evaluated): every integer of the pool in every integer
syntax (decimal, 0x 0b 0o, NrDIGITS for every radix 2..36, 64r), q / float / imaginary forms, every
escape form in '..' ".." B".." R".." F"..".
Oracle: parse returns Ok or Err - no panic, no hang, no abort; a literal evaluates to the value
the generator spelled.
"""
import base64
import glob
import itertools
import os
import re
from fractions import Fraction

from ..canon import cI, cQ, cF, norm, f2hex
from ..core import Case, Violation
from ..pools import int_values

PROP = "C15"
LEVEL = "exploration"
TECHNIQUE = "bounded exhaustive enumeration of token sequences, character strings, single-token mutations of a corpus and literal spellings through the real lexer/parser (and evaluator for literals)"
RULE = ("every string of each family inside its bound is parsed once; non-trivial = the text lexes to at least two tokens "
        "(counted as: length >= 2 characters); distinct by text")
ASSUMPTIONS = ["nesting deeper than 64 is outside the bound (native stack)", "Python int()/float() spell the reference value of a literal"]
SHARDED = True
POPTS = {"parse_only": True, "compact": True, "step_ms": 1500}

TOKENS = ["if", "else", "while", "for", "yield", "into", "switch", "case", "null", "and", "or", "coalesce", "break", "try", "catch",
          "throw", "continue", "return", "consume", "pop", "remove", "swap", "every", "struct", "freeze", "import", "literally", "_",
          "(", ")", "[", "]", "{", "}", "`", "\\", "\\\\", ",", ";", ":", "::", "...", "<-", "<<-", "->", "=", "!", ":=",
          "+", "-", "x", "f", "1", "1.5", '"s"', 'B"b"', 'F"{x}"', "2i"]
CHARS = list("019.erxqif_'\"\\#(){}FRBu ")
FCHARS = list("{}#x09<a+")
# characters of every Unicode class the lexer can meet at token start: letters, decimal digits of other scripts, other numerics
# (superscript, fraction, fullwidth, roman, circled), spaces that are not ASCII, zero-width and bidi marks, a combining mark,
# case-folding oddities, an astral character, a private-use and a non-character code point
UCHARS = list("é٣१²½１Ⅷ①\u00a0\u2003\u200b\u200f\ufeff\u0301ßİ😀\ue000\uffff\u2028λ")


def corpus():
    out = []
    test = open("/repo/tests/test.rs").read()
    for m in re.finditer(r'simple_eval\(\s*"((?:[^"\\]|\\.)*)"', test):
        s = m.group(1)
        s = s.replace('\\"', '"').replace("\\n", "\n").replace("\\\\", "\\")
        out.append(s)
    for f in sorted(glob.glob("/repo/examples/*.noul")):
        out.append(open(f).read())
    seen = set()
    res = []
    for s in out:
        if s not in seen and len(s) < 700:
            seen.add(s)
            res.append(s)
    return res


TOKRE = re.compile(r'''\s+|[A-Za-z_][A-Za-z0-9_'?]*|\d+\.?\d*(?:e-?\d+)?[a-zA-Z]?|"(?:[^"\\]|\\.)*"|'(?:[^'\\]|\\.)*'|\\\\|\.\.\.|<<-|<-|->|::|:=|[!$%&*+\-./<=>?@^|~]+|.''', re.S)


def tokenize(s):
    return [t for t in TOKRE.findall(s)]


def ramps():
    out = []
    for d in (1, 2, 3, 5, 8, 13, 21, 34, 55, 64):
        out.append("(" * d + "1" + ")" * d)
        out.append("[" * d + "1" + "]" * d)
        out.append("{" * d + "1" + "}" * d)
        out.append("(" * d)
        out.append("[" * d + "1")
        out.append(")" * d)
        out.append("\\x -> " * d + "1")
        out.append("if (1) " * d + "1")
        out.append("for (x <- y) " * d + "1")
        out.append("-" * d + "1")
        out.append("f(" * d + "1" + ")" * d)
        out.append("1 + " * d + "1")
        out.append("x[" * d + "0" + "]" * d)
        out.append("try " * d + "1" + " catch e -> 2" * d)
        out.append("#(" * d + "c" + ")" * d + " 1")
        out.append("#(" * d)
        out.append('F"{' * min(d, 3) + "1" + '}"' * min(d, 3))
        out.append("switch (1) " + "case 1 -> switch (2) " * d + "case _ -> 0")
        out.append("a, " * d + "b = c")
        out.append("...x, " * d + "y = z")
    return out


def bounds(tier):
    return {"token_alphabet": len(TOKENS), "token_seq_len": 3 if tier == "quick" else 4,
            "char_alphabet": "".join(CHARS), "char_len": 4 if tier == "quick" else 5,
            "corpus_programs": len(corpus()), "format_body_len": 4 if tier == "quick" else 5, "nesting_depth": 64,
            "radixes": "2..36 and 64"}


B64 = "ABCDEFGHIJKLMNOPQRSTUVWXYZabcdefghijklmnopqrstuvwxyz0123456789+/"
DIG = "0123456789abcdefghijklmnopqrstuvwxyz"


def to_base(v, b, digs=DIG):
    if v == 0:
        return digs[0]
    s = []
    while v:
        s.append(digs[v % b])
        v //= b
    return "".join(reversed(s))


def cases(tier, shard, nshards):
    cnt = 0

    def mine():
        nonlocal cnt
        cnt += 1
        return cnt % nshards == shard
    P = lambda s, fam: Case(s, {"f": fam}, opts=POPTS)
    # (a) token sequences
    L = 3 if tier == "quick" else 4
    for n in range(1, L + 1):
        for t in itertools.product(TOKENS, repeat=n - 1):
            if not mine():
                continue
            for last in TOKENS:
                seq = t + (last,)
                yield P(" ".join(seq), "tokens")
                if n <= 3:
                    yield P("".join(seq), "tokens-glued")
    # (b) character strings
    L = 4 if tier == "quick" else 5
    for n in range(1, L + 1):
        for t in itertools.product(CHARS, repeat=n - 1):
            if not mine():
                continue
            pre = "".join(t)
            for c in CHARS:
                yield P(pre + c, "chars")
    # (b2) strings over the Unicode characters mixed with the ASCII ones that start / continue tokens
    mix = UCHARS + list("0x.e(\"'_ #")
    L2 = 3 if tier == "quick" else 4
    for n in range(1, L2 + 1):
        for t in itertools.product(mix, repeat=n - 1):
            if not mine():
                continue
            pre = "".join(t)
            for c in mix:
                if any(ch in UCHARS for ch in pre + c):
                    yield P(pre + c, "unicode-chars")
    # (c) corpus mutations
    for prog in corpus():
        toks = tokenize(prog)
        for i, tk in enumerate(toks):
            if tk.isspace():
                continue
            if not mine():
                continue
            yield P("".join(toks[:i] + toks[i + 1:]), "mut-delete")
            yield P("".join(toks[:i] + [tk, " ", tk] + toks[i + 1:]), "mut-duplicate")
            for r in TOKENS:
                yield P("".join(toks[:i] + [r] + toks[i + 1:]), "mut-replace")
        if mine():
            yield P(prog, "corpus")
            for k in range(0, len(prog), 1 if len(prog) < 120 else 7):
                yield P(prog[:k], "corpus-truncated")
    # (d) nesting
    for s in ramps():
        if mine():
            yield P(s, "nesting")
    # (e) format string bodies
    L = 4 if tier == "quick" else 5
    for n in range(0, L + 1):
        for t in itertools.product(FCHARS, repeat=n):
            if not mine():
                continue
            yield P('F"%s"' % "".join(t), "format-body")
            if n <= 3:
                yield Case('x := 5; a := 7; F"%s"' % "".join(t), {"f": "format-eval"}, opts={"compact": True})
    # (f) digit runs at every width boundary x every suffix character x a following character: the literal branches of the
    #     lexer (radix prefix, q/f/i/j/e suffixes, '.', identifiers glued to numbers) with digit prefixes that do not fit u8/u32/u64/i64/u128
    runs = [0, 1, 2, 9, 10, 36, 37, 63, 64, 65, 99, 255, 256, 65535, 65536, 2 ** 31 - 1, 2 ** 31, 2 ** 32 - 1, 2 ** 32, 2 ** 32 + 1, 2 ** 32 + 16, 2 ** 32 + 64,
            2 ** 63 - 1, 2 ** 63, 2 ** 64 - 1, 2 ** 64, 2 ** 64 + 16, 2 ** 128, 10 ** 30, 10 ** 100]
    sufs = list("abcdefghijklmnopqrstuvwxyzABCDEFGHIJKLMNOPQRSTUVWXYZ._'") + ["", "e-", "e+", ".e", ".."] + list("٣²½１é")
    tails = ["", "0", "1", "9", "a", "z", "A", "Z", "_", "+", "/", ".", ".5", "e1", "q", "r1", " 1"]
    for v in runs:
        for zeros in ("", "0", "000"):
            if zeros and tier == "quick" and v not in (16, 64, 2 ** 32 + 16, 2 ** 32 + 64, 2 ** 32, 2 ** 64):
                continue
            if not mine():
                continue
            for sfx in sufs:
                for tl in tails:
                    yield P("%s%d%s%s" % (zeros, v, sfx, tl), "digit-run")
    # ---- decoding
    E = lambda s, want, fam: Case(s, {"f": fam, "want": want}, opts={"compact": True})
    vals = sorted(set(abs(v) for v in int_values(tier)) | set(range(0, 300 if tier == "quick" else 2000)))
    for v in vals:
        if not mine():
            continue
        yield E(str(v), cI(v), "int-decimal")
        yield E("0x%x" % v, cI(v), "int-0x")
        yield E("0X%X" % v, cI(v), "int-0x")
        yield E("0b%s" % bin(v)[2:], cI(v), "int-0b")
        yield E("0o%o" % v, cI(v), "int-0o")
        yield E("%dq" % v, cQ(v), "rational-q")
        yield E("64r%s" % to_base(v, 64, B64), cI(v), "int-64r")
        if v < 10 ** 15:
            yield E("%d.0" % v, cF(float(v)), "float")
            yield E("%df" % v, cF(float(v)), "float")
            yield E("%di" % v, ["c", f2hex(0.0), f2hex(float(v))], "imaginary")
        for b in range(2, 37):
            if v < 2000 and v % 7 and b not in (2, 7, 10, 16, 36) and tier == "quick":
                continue
            yield E("%dr%s" % (b, to_base(v, b)), cI(v), "int-radix")
            yield E("%dR%s" % (b, to_base(v, b).upper()), cI(v), "int-radix")
    floats = [0.5, 0.1, 1.5, 2.25, 1e10, 1e-10, 1.7976931348623157e308, 5e-324, 123456.789, 3.141592653589793, 1e21, 1e22, 2.5e-7, 9007199254740993.0]
    for x in floats:
        if not mine():
            continue
        r = repr(x)
        forms = {r}
        if "e" not in r:
            forms.add(r + "f")
            forms.add(r + "e0")
        m, _, e = r.partition("e")
        if e:
            forms.add("%se%d" % (m, int(e)))
        for s in forms:
            if "e+" in s:
                continue
            yield E(s, cF(float(s.rstrip("f"))), "float")
            yield E(s.rstrip("f") + "i", ["c", f2hex(0.0), f2hex(float(s.rstrip("f")))], "imaginary") if "e" not in s else E(s, cF(float(s)), "float")
    # float literals with an exponent: mantissas of every length 1..20 (the 15/16/17-digit and 2^53 boundaries of exact
    # conversion) x every exponent in a window x the lexer's two routes (with and without a decimal point)
    mants = set()
    for L in range(1, 21):
        mants.update(["9" * L, "1" * L, ("1" + "0" * (L - 2) + "1") if L >= 2 else "7", "9007199254740993"[:L], "4503599627370497"[:L]])
    for mt in sorted(mants, key=lambda t: (len(t), t)):
        for ex in (range(-30, 31) if tier != "quick" else list(range(-24, 25, 3)) + [-23, -22, -1, 1, 22, 23]):
            if not mine():
                continue
            for s_ in ("%se%d" % (mt, ex), "%s.0e%d" % (mt, ex), "%s.%se%d" % (mt[:1], mt[1:] or "0", ex)):
                yield E(s_, cF(float(s_)), "float-exponent")
    # escapes
    for q in ("'", '"'):
        for b in range(256):
            if not mine():
                continue
            yield E("%s\\x%02x%s" % (q, b, q), ["s", chr(b)], "escape-x-string")
            yield E("%s\\x%02X%s" % (q, b, q), ["s", chr(b)], "escape-x-string")
            yield E("B%s\\x%02x%s" % (q, b, q), ["b", [b]], "escape-x-bytes")
            if 32 <= b < 127 and chr(b) not in "\\'\"":
                yield E("%s%s%s" % (q, chr(b), q), ["s", chr(b)], "plain-char")
                yield E("B%s%s%s" % (q, chr(b), q), ["b", [b]], "plain-byte")
                yield E("R%s%s%s" % (q, chr(b), q), ["s", chr(b)], "raw-char")
        for esc, ch in (("n", "\n"), ("r", "\r"), ("t", "\t"), ("0", "\0"), ("\\", "\\"), ("'", "'"), ('"', '"')):
            if not mine():
                continue
            yield E("%s\\%s%s" % (q, esc, q), ["s", ch], "escape-simple")
            yield E("B%s\\%s%s" % (q, esc, q), ["b", list(ch.encode())], "escape-simple-bytes")
            yield E("R%s\\%s%s" % (q, esc, q), ["s", "\\" + esc], "raw-backslash") if esc != q else E("1", cI(1), "int-decimal")
            yield E("F%s\\%s%s" % (q, esc, q), ["s", ch], "escape-simple-format") if esc not in "{}" else E("1", cI(1), "int-decimal")
    cps = [0x41, 0xe9, 0x7ff, 0x800, 0xffff, 0x10000, 0x10ffff, 0x1f409, 0xd7ff, 0xe000, 0x0]
    for cp in cps:
        for (o, c) in (("{", "}"), ("(", ")"), ("[", "]"), ("<", ">"), ("", "")):
            for width in (0, 4, 8):
                if not mine():
                    continue
                h = ("%0" + str(width) + "x") % cp if width else "%x" % cp
                yield E('"\\u%s%s%s"' % (o, h, c), ["s", chr(cp)], "escape-u")
                yield E('"\\u%s%s%sZ"' % (o, h.upper(), c), ["s", chr(cp) + "Z"], "escape-u")
    # \u with 1..12 hex digits of every leading digit: must lex (value or Invalid), never panic
    for nd in range(1, 13):
        for d in "0123456789abcdefF":
            for (o, c) in (("{", "}"), ("", "")):
                if not mine():
                    continue
                yield P('"\\u%s%s%s"' % (o, d * nd, c), "escape-u-length")
                yield P('"\\u%s%s%s"' % (o, d + "0" * (nd - 1), c), "escape-u-length")
                yield P("'\\u%s%s" % (o, "f" * nd), "escape-u-length")


def nontrivial(case, rs):
    return len(case.steps[0]) >= 2


def tally(case, rs, extra):
    extra["family:" + case.meta["f"]] += 1
    extra["family:%s:%s" % (case.meta["f"], rs[0].get("st"))] += 1


def judge(case, rs):
    m = case.meta
    r = rs[0]
    st = r.get("st")
    src = case.steps[0]
    fam = m["f"]
    if st in ("panic", "abort", "hang"):
        msg = (r.get("e") or "")
        site = ""
        mm = re.search(r" @ .*?([a-z_]+\.rs):\d+$", msg)
        if mm:
            site = " site=" + mm.group(1)
        what = re.sub(r"\d+", "N", msg.split(" @ ")[0])[:60] if st == "panic" else ""
        return [Violation("C15 %s family=%s%s %s" % (st, fam.split("-")[0] if fam.startswith("mut") else fam, site, what),
                          "%r -> %s %s" % (src[:300], st, msg[-300:]), "Ok or parse error", st)]
    if "want" in m:
        if st != "ok":
            return [Violation("C15 decode family=%s result=%s" % (fam, st), "%r: expected %s, status %s %s" % (src, m["want"], st, r.get("e")), m["want"], st)]
        if norm(r.get("v")) != m["want"]:
            return [Violation("C15 decode family=%s result=wrong-value" % fam, "%r evaluated to %s, the literal spells %s" % (src, norm(r.get("v")), m["want"]), m["want"], norm(r.get("v")))]
    return []
