"""C06 - integer arithmetic is exact at every magnitude and representation.

Alphabet: every pair of operand *expressions* from pools.int_operands (each value reachable as
literal, as a difference of big values (Big representation of a small value), through `^`,
through int(str) and through a bit operation) x every integer operator.
Oracle: Python int arithmetic on the decimal renderings; a zero divisor must raise.
"""
import math

from ..canon import cI, cQ, cL, norm
from ..core import Case, Violation
from ..pools import int_operands, iclass
from fractions import Fraction

PROP = "C06"
LEVEL = "exploration"
TECHNIQUE = "bounded exhaustive enumeration of operand-pair x operator grid on the real interpreter, Python-int reference"
RULE = ("every (operator, operand expression a, operand expression b) of the stated pools is run once; "
        "a case is non-trivial when the reference defines a value (not an error) for it; distinct by program text")
ASSUMPTIONS = ["Python int arithmetic is the reference for exact integer arithmetic",
               "exponents/shifts limited to results of at most 2^20 bits"]
SHARDED = True

BIN = ["+", "-", "*", "//", "%", "%%", "/!", "^", "gcd", "lcm", "&", "|", "~", "xor", "<<", ">>",
       "==", "!=", "<", "<=", ">", ">=", "<=>", ">=<", "min", "max", "pairing", "dictkey", "setmember"]
UN = ["neg", "not", "abs", "signum", "even", "odd", "str", "is_prime", "factorize"]

RAISE = "raise"
SKIP = "skip"


def trunc_div(a, b):
    q = abs(a) // abs(b)
    return q if (a >= 0) == (b >= 0) else -q


def ref_bin(op, a, b):
    if op == "+":
        return a + b
    if op == "-":
        return a - b
    if op == "*":
        return a * b
    if op == "//":
        return RAISE if b == 0 else a // b
    if op == "%%":
        return RAISE if b == 0 else a % b
    if op == "%":
        return RAISE if b == 0 else a - b * trunc_div(a, b)
    if op == "/!":
        if b == 0 or a % b != 0:
            return RAISE
        return a // b
    if op == "^":
        if b < 0:
            if a == 0:
                return RAISE
            if abs(a).bit_length() * (-b) > 1 << 16:
                return SKIP
            return Fraction(1, a ** (-b)) if True else None
        if a not in (0, 1, -1) and abs(a).bit_length() * b > 1 << 18:
            return SKIP
        return a ** b
    if op == "gcd":
        return math.gcd(a, b)
    if op == "lcm":
        return 0 if a == 0 or b == 0 else abs(a * b) // math.gcd(a, b)
    if op == "&":
        return a & b
    if op == "|":
        return a | b
    if op in ("~", "xor"):
        return a ^ b
    if op == "<<":
        if b < 0:
            return SKIP
        if b > 1 << 16:
            return SKIP
        return a << b
    if op == ">>":
        if b < 0:
            return SKIP
        return a >> b
    if op == "==":
        return int(a == b)
    if op == "!=":
        return int(a != b)
    if op == "<":
        return int(a < b)
    if op == "<=":
        return int(a <= b)
    if op == ">":
        return int(a > b)
    if op == ">=":
        return int(a >= b)
    if op == "<=>":
        return (a > b) - (a < b)
    if op == ">=<":
        return (a < b) - (a > b)
    if op == "min":
        return min(a, b)
    if op == "max":
        return max(a, b)
    if op == "pairing":
        return RAISE if b == 0 else 1
    if op == "dictkey":
        return 1 if a == b else None
    if op == "setmember":
        return int(a == b)
    raise KeyError(op)


def src_bin(op, sa, sb):
    if op in ("gcd", "lcm", "min", "max"):
        return "%s(%s, %s)" % (op, sa, sb)
    if op == "pairing":
        return "(%s // %s) * %s + (%s %%%% %s) == %s" % (sa, sb, sb, sa, sb, sa)
    if op == "dictkey":
        return "{%s: 1} !? %s" % (sa, sb)
    if op == "setmember":
        return "%s in set([%s])" % (sb, sa)
    return "%s %s %s" % (sa, op, sb)


def small_primes(n):
    sieve = bytearray([1]) * (n + 1)
    sieve[0:2] = b"\0\0"
    for i in range(2, int(n ** 0.5) + 1):
        if sieve[i]:
            sieve[i * i::i] = bytearray(len(sieve[i * i::i]))
    return sieve


_SIEVE = small_primes(2_100_000)


def is_prime(n):
    if n < 2:
        return False
    if n < len(_SIEVE):
        return bool(_SIEVE[n])
    i = 2
    while i * i <= n:
        if i < len(_SIEVE) and not _SIEVE[i]:
            i += 1
            continue
        if n % i == 0:
            return False
        i += 1
    return True


def factorize(n):
    out = []
    if n < 0:
        out.append((-1, 1))
        n = -n
    if n < 2:
        return out
    p = 2
    while p * p <= n:
        if n % p == 0:
            k = 0
            while n % p == 0:
                n //= p
                k += 1
            out.append((p, k))
        p += 1
    if n > 1:
        out.append((n, 1))
    return out


def ref_un(op, a):
    if op == "neg":
        return -a
    if op == "not":
        return ~a
    if op == "abs":
        return abs(a)
    if op == "signum":
        return (a > 0) - (a < 0)
    if op == "even":
        return int(a % 2 == 0)
    if op == "odd":
        return int(a % 2 == 1)
    if op == "str":
        return str(a)
    if op == "is_prime":
        return int(is_prime(a))
    if op == "factorize":
        return factorize(a)
    raise KeyError(op)


def src_un(op, sa):
    if op == "neg":
        return "-(%s)" % sa
    if op == "not":
        return "~(%s)" % sa
    return "%s(%s)" % (op, sa)


def canon_of(x):
    if x is None:
        return None
    if isinstance(x, str):
        return ["s", x]
    if isinstance(x, Fraction):
        return cQ(x) if x.denominator != 1 else cQ(x)
    if isinstance(x, list):
        return cL([cL([cI(p), cI(k)]) for p, k in x])
    return cI(x)


def bounds(tier):
    ops = int_operands(tier)
    return {"operand_expressions": len(ops), "distinct_values": len({v for v, _, _ in ops}),
            "binary_ops": len(BIN), "unary_ops": len(UN),
            "prime_range": 3000 if tier == "quick" else 20000}


def cases(tier, shard, nshards):
    ops = int_operands(tier)
    n = 0
    for (a, sa, ra) in ops:
        for (b, sb, rb) in ops:
            n += 1
            if n % nshards != shard:
                continue
            for op in BIN:
                if ref_bin(op, a, b) == SKIP:
                    continue  # result beyond the stated size bound: not generated at all
                yield Case(src_bin(op, sa, sb), {"op": op, "a": str(a), "b": str(b), "ra": ra, "rb": rb})
    for (a, sa, ra) in ops:
        n += 1
        if n % nshards != shard:
            continue
        for op in UN:
            if op in ("is_prime", "factorize") and abs(a).bit_length() > 41:
                continue
            yield Case(src_un(op, sa), {"op": op, "a": str(a), "b": None, "ra": ra, "rb": None})
    # primes / factorisations: every n in a range, neighbours of powers of two, smooth products
    lim = 3000 if tier == "quick" else 20000
    extra = list(range(-5, lim))
    for k in range(11, 41):
        for d in range(-3, 4):
            extra.append(2 ** k + d)
    smooth = [2 ** 61 * 3 ** 5, 2 * 3 * 5 * 7 * 11 * 13 * 17 * 19 * 23 * 29 * 31 * 37 * 41 * 43 * 47,
              (2 ** 31 - 1) * 3, 997 ** 4, 65537 * 65521, 2 ** 200, 3 ** 120, -(2 ** 64) * 7]
    for v in extra:
        n += 1
        if n % nshards != shard:
            continue
        for op in ("is_prime", "factorize"):
            for route, s in (("lit", "(%d)" % v), ("bigdiff", "((2^70+(%d))-2^70)" % v)):
                if route == "bigdiff" and not (v % 37 == 0 or v < 50):
                    continue
                yield Case(src_un(op, s), {"op": op, "a": str(v), "b": None, "ra": route, "rb": None})
    for v in smooth:
        n += 1
        if n % nshards != shard:
            continue
        for op in ("is_prime", "factorize"):
            yield Case(src_un(op, "(%d)" % v), {"op": op, "a": str(v), "b": None, "ra": "lit", "rb": None})


def nontrivial(case, rs):
    m = case.meta
    a = int(m["a"])
    exp = ref_bin(m["op"], a, int(m["b"])) if m["b"] is not None else ref_un(m["op"], a)
    return exp not in (RAISE, SKIP) or exp is None


def tally(case, rs, extra):
    m = case.meta
    extra["route:%s/%s" % (m["ra"], m["rb"])] += 1
    v = rs[0].get("v")
    if isinstance(v, list) and v and v[0] == "I" and abs(int(v[1])) < 2 ** 63:
        extra["results_small_value_in_big_repr"] += 1


def judge(case, rs):
    m = case.meta
    op = m["op"]
    a = int(m["a"])
    r = rs[0]
    st = r.get("st")
    if m["b"] is not None:
        b = int(m["b"])
        exp = ref_bin(op, a, b)
        cls = "%s,%s" % (iclass(a), iclass(b))
    else:
        exp = ref_un(op, a)
        cls = iclass(a)
    if exp == SKIP:
        return []
    if exp == RAISE:
        if st == "throw":
            return []
        if st in ("panic", "abort", "hang"):
            return []  # a crash where an error is due is C14's to report (tallied there)
        if st == "ok" and op == "^":
            return []  # 0 ^ negative: not asserted
        return [Violation("C06 op=%s class=%s kind=no-error" % (op, cls),
                          "%s: reference raises (zero divisor / inexact), interpreter gave %r" % (case.steps[0], r),
                          "raise", r.get("v"))]
    want = canon_of(exp)
    if st != "ok":
        return [Violation("C06 op=%s class=%s kind=%s" % (op, cls, st),
                          "%s: expected %s, interpreter status %s (%s)" % (case.steps[0], exp, st, r.get("e")),
                          want, {"st": st, "e": r.get("e")})]
    got = norm(r.get("v"))
    if isinstance(exp, Fraction) and isinstance(got, list) and got and got[0] in ("i", "q"):
        from ..canon import num_value
        if num_value(got) == exp:
            return []
    if got != want:
        return [Violation("C06 op=%s class=%s kind=wrong-value" % (op, cls),
                          "%s: expected %s, got %s" % (case.steps[0], want, got), want, got)]
    return []
