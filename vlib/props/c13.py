"""C13 - the sequence library matches its executable specification.

Alphabet: every function form of the table below x every input kind (list, string, vector, bytes,
set (dict keys), range stream, stream(list)) x ALL sequences of length 0..3 (quick) / 0..5 (thorough)
over a 4-symbol alphabet per kind that contains duplicates under == of different levels (1, 1.0),
a non-ASCII character and byte 255 x small numeric / function parameters.
Oracle: straightforward Python one-liners; stability, first-occurrence order and kind preservation
are part of the expected value.
"""
import functools
import itertools
import json
from collections import Counter

from ..canon import cI, cF, norm, resort
from ..core import Case, Violation

PROP = "C13"
LEVEL = "exploration"
TECHNIQUE = "bounded exhaustive enumeration of (function form, input kind, every short sequence, parameter) on the real interpreter vs Python one-line reference implementations"
RULE = ("every (function form, kind, sequence, parameter) inside the bounds is run once; non-trivial = the sequence is non-empty; "
        "distinct by program text")
ASSUMPTIONS = ["the Python one-liners in this module are the executable specification (README/BUILTINS.md one-line definitions)",
               "anything derived from dict iteration is compared as a multiset", "the kind of partition's halves and `find` with a value argument are not asserted"]
SHARDED = True
RAISE = "raise"

NUMS = [0, 1, 1.0, 2]
KINDS = {
    "list": NUMS, "vector": NUMS, "bytes": [0, 1, 2, 255], "string": ["a", "b", "é", " "],
    "wstream": NUMS, "range": None, "set": [0, 1, 2, 5],
    "srange": None,      # a stepped range whose end is off the step grid: 1, 3, 5, ... written `1 til 2n+1 by 2`
}
SAMEKIND = ("list", "vector", "bytes", "string")


def fnum(x):
    if isinstance(x, float):
        return repr(x) if x != int(x) else "%d.0" % int(x)
    return str(x) if x >= 0 else "(%d)" % x


def src_of(kind, xs):
    if kind == "list":
        return "[%s]" % ", ".join(fnum(x) for x in xs)
    if kind == "vector":
        return "V(%s)" % ", ".join(fnum(x) for x in xs)
    if kind == "bytes":
        return "B[%s]" % ",".join(str(x) for x in xs)
    if kind == "string":
        return '"%s"' % "".join(xs)
    if kind == "wstream":
        return "stream([%s])" % ", ".join(fnum(x) for x in xs)
    if kind == "range":
        return "(1 to %d)" % len(xs)
    if kind == "srange":
        return "(1 til %d by 2)" % (2 * len(xs) + 1)
    if kind == "set":
        return "set([%s])" % ", ".join(fnum(x) for x in xs)
    raise KeyError(kind)


def conv(x):
    """python value -> canon"""
    if x is None:
        return None
    if isinstance(x, bool):
        return cI(int(x))
    if isinstance(x, int):
        return cI(x)
    if isinstance(x, float):
        return cF(x)
    if isinstance(x, str):
        return ["s", x]
    if isinstance(x, list):
        return ["l", [conv(y) for y in x]]
    if isinstance(x, Seq):
        return mk(x.kind, x.xs)
    if isinstance(x, Freq):
        return ["d", [[conv(k), cI(v)] for k, v in x.items], cI(0)]
    raise TypeError(x)


class Seq:
    """a result that has the kind of the input (list for set / stream inputs)"""

    def __init__(self, kind, xs):
        self.kind, self.xs = kind, list(xs)


class Freq:
    def __init__(self, items):
        self.items = items


def mk(kind, xs):
    if kind == "vector":
        return ["v", [conv(x) for x in xs]]
    if kind == "bytes":
        return ["b", [int(x) for x in xs]]
    if kind == "string":
        return ["s", "".join(xs)]
    return ["l", [conv(x) for x in xs]]


def disp(x):
    if isinstance(x, float):
        return str(int(x)) if x == int(x) else repr(x)
    if isinstance(x, list):
        return "[%s]" % ", ".join(disp(y) for y in x)
    return str(x)


# ---------------------------------------------------------------- parameters
def preds(kind):
    if kind == "string":
        return [('(== "a")', lambda x: x == "a"), ("(\\x -> 0)", lambda x: False), ("(\\x -> 1)", lambda x: True),
                ('(> "a")', lambda x: x > "a")]
    return [("(> 0)", lambda x: x > 0), ("(\\x -> 0)", lambda x: False), ("(\\x -> 1)", lambda x: True), ("(== 1)", lambda x: x == 1)]


def keys(kind):
    if kind == "string":
        return [("id", lambda x: x), ('(\\x -> x == "a")', lambda x: int(x == "a"))]
    return [("id", lambda x: x), ("(\\x -> -x)", lambda x: -x), ("(\\x -> x == 1)", lambda x: int(x == 1))]


def uniq(xs):
    out = []
    for x in xs:
        if not any(x == y for y in out):
            out.append(x)
    return out


def groups_adj(xs, rel):
    out = []
    for x in xs:
        if out and rel(out[-1][-1], x):
            out[-1].append(x)
        else:
            out.append([x])
    return out


def fold(f, xs, init=None):
    it = list(xs)
    if init is None:
        if not it:
            return RAISE
        acc, it = it[0], it[1:]
    else:
        acc = init
    for x in it:
        acc = f(acc, x)
    return acc


def scan(f, xs, init=None):
    it = list(xs)
    out = []
    if init is None:
        if not it:
            return []
        acc, it = it[0], it[1:]
    else:
        acc = init
    out.append(acc)
    for x in it:
        acc = f(acc, x)
        out.append(acc)
    return out


def stable_sorted(xs, key=lambda x: x, reverse=False):
    def cmp(a, b):
        ka, kb = key(a), key(b)
        return (ka > kb) - (ka < kb)
    return sorted(xs, key=functools.cmp_to_key(cmp), reverse=False)


def same(kind):
    return kind if kind in SAMEKIND else "list"


# ---------------------------------------------------------------- the function table
# each entry: name -> generator of (program source, expectation) given (kind, xs, S) with S the source of xs
def forms(kind, xs, S):
    K = same(kind)
    n = len(xs)
    num = kind != "string"
    unordered = kind == "set"
    E = lambda v: ("exact", conv(v))
    M = lambda vs: ("multiset", [conv(v) for v in vs])
    out = []
    add = lambda name, src, exp: out.append((name, src, exp))
    # --- map / filter family
    if num:
        add("map", "%s map (+1)" % S, M([x + 1 for x in xs]) if unordered else E([x + 1 for x in xs]))
    add("map", "%s map (\\x -> [x])" % S, M([[x] for x in xs]) if unordered else E([[x] for x in xs]))
    add("flat_map", "%s flat_map (\\x -> [x, x])" % S, M([y for x in xs for y in (x, x)]) if unordered else E([y for x in xs for y in (x, x)]))
    add("each", "acc := []; %s each (\\x -> (acc append= x)); acc" % S, M(xs) if unordered else E(list(xs)))
    add("enumerate", "enumerate(%s)" % S, None if unordered else E([[i, x] for i, x in enumerate(xs)]))
    for ps, pf in preds(kind):
        yes = [x for x in xs if pf(x)]
        no = [x for x in xs if not pf(x)]
        add("filter", "%s filter %s" % (S, ps), M(yes) if unordered else E(Seq(K, yes)))
        add("reject", "%s reject %s" % (S, ps), M(no) if unordered else E(Seq(K, no)))
        add("partition", "%s partition %s" % (S, ps), ("partition", [conv(x) for x in yes], [conv(x) for x in no], unordered))
        add("count", "%s count %s" % (S, ps), E(len(yes)))
        add("any", "%s any %s" % (S, ps), E(int(bool(yes))))
        add("all", "%s all %s" % (S, ps), E(int(not no)))
        if not unordered:
            add("find", "%s find %s" % (S, ps), E(yes[0]) if yes else RAISE)
            add("find?", "%s find? %s" % (S, ps), E(yes[0]) if yes else E(None))
            idx = next((i for i, x in enumerate(xs) if pf(x)), None)
            add("locate", "%s locate %s" % (S, ps), E(idx) if idx is not None else RAISE)
            add("locate?", "%s locate? %s" % (S, ps), E(idx))
            tw = list(itertools.takewhile(pf, xs))
            dw = list(itertools.dropwhile(pf, xs))
            add("take", "%s take %s" % (S, ps), E(Seq(K, tw)))
            # on a stream, drop(pred) may stay a stream: only its elements are specified
            add("drop", "%s drop %s" % (S, ps), ("elems", [conv(x) for x in dw]) if kind in ("range", "wstream", "srange") else E(Seq(K, dw)))
    if num:
        add("count", "count(%s)" % S, E(sum(1 for x in xs if x != 0)))
        add("any", "any(%s)" % S, E(int(any(x != 0 for x in xs))))
        add("all", "all(%s)" % S, E(int(all(x != 0 for x in xs))))
        add("count", "%s count 1" % S, E(sum(1 for x in xs if x == 1)))
        if not unordered:
            i1 = next((i for i, x in enumerate(xs) if x == 1), None)
            add("locate", "%s locate 1" % S, E(i1) if i1 is not None else RAISE)
            add("locate?", "%s locate? 1" % S, E(i1))
        add("sum", "sum(%s)" % S, E(fold(lambda a, b: a + b, xs, 0)))
        add("product", "product(%s)" % S, E(fold(lambda a, b: a * b, xs, 1)))
    # --- extrema / sorting
    add("min", "min(%s)" % S, ("numeq", min(xs)) if n else RAISE)
    add("max", "max(%s)" % S, ("numeq", max(xs)) if n else RAISE)
    if n and not unordered:
        # which of several ==-equal extrema is returned: every spelling agrees with the fold of the binary operator (the first one)
        add("max", "[max(%s), %s fold max, (for (x_ <- %s) yield x_ into max)]" % (S, S, S), ("all-identical",))
        add("min", "[min(%s), %s fold min, (for (x_ <- %s) yield x_ into min)]" % (S, S, S), ("all-identical",))
        # every builtin with a streaming (catamorphism) implementation used by `yield .. into F`: the second implementation of the
        # same function agrees with the call, value or error alike
        for F in ("count", "set", "count_distinct", "sum", "product", "any", "all", "max", "min"):
            add(F, '[try %s(%s) catch _ -> "ERR", try (for (x_ <- %s) yield x_ into %s) catch _ -> "ERR"]' % (F, S, S, F), ("all-identical",))
        if n >= 2:
            add("max", "[max(...%s), %s fold max]" % (S, S), ("all-identical",))
            add("min", "[min(...%s), %s fold min]" % (S, S), ("all-identical",))
    if not n and not unordered:
        for F in ("count", "set", "count_distinct", "sum", "product", "any", "all", "max", "min"):
            add(F, '[try %s(%s) catch _ -> "ERR", try (for (x_ <- %s) yield x_ into %s) catch _ -> "ERR"]' % (F, S, S, F), ("all-identical",))
    add("sort", "sort(%s)" % S, None if (unordered and False) else (E(Seq(K, stable_sorted(xs))) if not unordered else ("sorted-multiset", [conv(x) for x in stable_sorted(xs)])))
    if not unordered:
        for ks, kf in keys(kind):
            add("sort_on", "%s sort_on %s" % (S, ks), E(Seq(K, stable_sorted(xs, key=kf))))
        add("sort", "%s sort (<=>)" % S, E(Seq(K, stable_sorted(xs))))
        add("sort", "%s sort (>=<)" % S, E(Seq(K, stable_sorted(xs, key=Neg))))
        if num:
            # comparators whose result is not -1 / 0 / 1: only the sign counts (a small fraction, a float, a big difference)
            add("sort", "%s sort (\\a, b -> (a - b) / 10)" % S, E(Seq(K, stable_sorted(xs))))
            add("sort", "%s sort (\\a, b -> (b - a) / 1000)" % S, E(Seq(K, stable_sorted(xs, key=Neg))))
            add("sort", "%s sort (\\a, b -> (a - b) * 0.001)" % S, E(Seq(K, stable_sorted(xs))))
            add("sort", "%s sort (\\a, b -> (a - b) * 2^70)" % S, E(Seq(K, stable_sorted(xs))))
            add("sort", "%s sort -" % S, E(Seq(K, stable_sorted(xs))))
        add("reverse", "reverse(%s)" % S, E(Seq(K, xs[::-1])))
        add("unique", "unique(%s)" % S, E(Seq(K, uniq(xs))))
        # --- grouping
        add("group", "group(%s)" % S, E([Seq(K, g) for g in groups_adj(xs, lambda a, b: a == b)]))
        add("group", "%s group (\\a, b -> a != b)" % S, E([Seq(K, g) for g in groups_adj(xs, lambda a, b: a != b)]))
        for k in (0, 1, 2, n, n + 1):
            chunks = [xs[i:i + k] for i in range(0, n, k)] if k > 0 else None
            add("group", "%s group %d" % (S, k), E([Seq(K, c) for c in chunks]) if k > 0 else RAISE)
            add("group'", "%s group' %d" % (S, k), (E([Seq(K, c) for c in chunks]) if n % k == 0 else RAISE) if k > 0 else RAISE)
            add("window", "%s window %d" % (S, k), E([Seq(K, xs[i:i + k]) for i in range(0, n - k + 1)]) if k > 0 else RAISE)
        # a count is a value, not a representation: 2 held as a big integer (arithmetic never re-normalises)
        B2 = "((2^70+2)-2^70)"
        add("group", "%s group %s" % (S, B2), E([Seq(K, xs[i:i + 2]) for i in range(0, n, 2)]))
        add("window", "%s window %s" % (S, B2), E([Seq(K, xs[i:i + 2]) for i in range(0, n - 1)]))
        add("**", "%s ** %s" % (S, B2), E(list(xs) * 2))
        add("combinations", "list(combinations(%s, %s))" % (S, B2), E([list(c) for c in itertools.combinations(xs, 2)]))
        add("^^", "list(%s ^^ %s)" % (S, B2), E([[a, b] for a in xs for b in xs]))
        add("prefixes", "prefixes(%s)" % S, E([Seq(K, xs[:i]) for i in range(n + 1)]))
        add("suffixes", "suffixes(%s)" % S, E([Seq(K, xs[n - i:]) for i in range(n + 1)]))
        add("pairwise", "%s pairwise (..)" % S, E([[a, b] for a, b in zip(xs, xs[1:])]))
        # --- folds
        add("fold", "%s fold (..)" % S, conv_or_raise(fold(lambda a, b: [a, b], xs)))
        add("fold", "%s fold (..) from 9" % S, E(fold(lambda a, b: [a, b], xs, 9)))
        add("scan", "%s scan (..)" % S, E(scan(lambda a, b: [a, b], xs)))
        add("scan", "%s scan (..) from 9" % S, E(scan(lambda a, b: [a, b], xs, 9)))
        if num:
            add("fold", "%s fold +" % S, conv_or_raise(fold(lambda a, b: a + b, xs)))
            add("fold", "%s fold max from 1" % S, ("numeq", fold(lambda a, b: max(a, b), xs, 1)))
            add("scan", "%s scan +" % S, E(scan(lambda a, b: a + b, xs)))
        # --- zips against a fixed partner
        other = [7, 8]
        add("zip", "%s zip [7, 8]" % S, E([[a, b] for a, b in zip(xs, other)]))
        add("zip", "zip(%s, [7, 8], [9])" % S, E([[a, b, c] for a, b, c in zip(xs, other, [9])]))
        add("zip", "%s zip [7, 8] with (..)" % S, E([[a, b] for a, b in zip(xs, other)]))
        add("ziplongest", "%s ziplongest [7, 8]" % S, E([[v for v in t if v is not NOPE] for t in itertools.zip_longest(xs, other, fillvalue=NOPE)]))
        add("ziplongest", "%s ziplongest [7, 8] with (..)" % S,
            E([(t[0] if t[1] is NOPE else (t[1] if t[0] is NOPE else [t[0], t[1]])) for t in itertools.zip_longest(xs, other, fillvalue=NOPE)]))
        # three sequences of unequal lengths in every argument position: batches keep the argument order of the survivors
        for pos, (srcs, lists) in enumerate([(("%s", "[7, 8]", "[9]"), (None, [7, 8], [9])), (("[9]", "%s", "[7, 8]"), ([9], None, [7, 8])),
                                             (("[7]", "[8, 9, 6]", "%s"), ([7], [8, 9, 6], None))]):
            call = ", ".join(t % S if "%s" in t else t for t in srcs)
            cols = [list(xs) if l is None else l for l in lists]
            batches = [[v for v in t if v is not NOPE] for t in itertools.zip_longest(*cols, fillvalue=NOPE)]
            add("ziplongest", "ziplongest(%s)" % call, E(batches))
            add("ziplongest", "ziplongest(%s, (..))" % call, E([functools.reduce(lambda a, b: [a, b], bt) for bt in batches]))
            add("zip", "zip(%s)" % call, E([list(t) for t in zip(*cols)]))
            add("zip", "zip(%s, \\a, b, c -> [c, a, b])" % call, E([[t[2], t[0], t[1]] for t in zip(*cols)]))
            add("transpose", "transpose([%s])" % call, E(batches))
        add("zip", "%s zip %s" % (S, S), E([[a, a] for a in xs]))
        # --- constructors
        add(".+", "5 .+ %s" % S, E([5] + list(xs)) if kind in ("list",) else None)
        add("+.", "%s +. 5" % S, E(list(xs) + [5]) if kind in ("list",) else None)
        if kind in ("list", "vector", "bytes"):
            add("++", "%s ++ %s" % (S, S), E(Seq(K, list(xs) + list(xs))))
            add("++", "%s ++ %s" % (S, src_of(kind, list(KINDS[kind][:2]))), E(Seq(K, list(xs) + list(KINDS[kind][:2]))))
        for k in (0, 1, 2):
            add("**", "%s ** %d" % (S, k), E(list(xs) * k))
        add("**", "%s ** [7, 8]" % S, E([[a, b] for a in xs for b in other]))
        add("^^", "list(%s ^^ 2)" % S, E([[a, b] for a in xs for b in xs]))
        add("transpose", "transpose([%s, %s])" % (S, S), E([[a, a] for a in xs]))
        add("transpose", "transpose([%s, [7, 8]])" % S, E([[v for v in t if v is not NOPE] for t in itertools.zip_longest(xs, other, fillvalue=NOPE)]))
        add("flatten", "flatten([%s, %s])" % (S, S), E(list(xs) + list(xs)))
        add("join", '%s join ","' % S, E(",".join(disp(x) for x in xs)))
        add("join", '%s join ""' % S, E("".join(disp(x) for x in xs)))
        if n <= 4:
            add("permutations", "list(permutations(%s))" % S, E([list(p) for p in itertools.permutations(xs)]))
            add("subsequences", "list(subsequences(%s))" % S,
                E([[xs[i] for i in range(n) if mask & (1 << (n - 1 - i))] for mask in range(2 ** n)]))
        for k in (0, 1, 2, n + 1):
            add("combinations", "list(combinations(%s, %d))" % (S, k), E([list(c) for c in itertools.combinations(xs, k)]))
    add("frequencies", "frequencies(%s)" % S, ("dict", conv(Freq([(k, sum(1 for x in xs if x == k)) for k in uniq(xs)]))))
    add("group_all", "%s group_all id" % S, ("multiset", [conv(Seq(K, g)) for g in [[x for x in xs if x == k] for k in uniq(xs)]]))
    if kind in SAMEKIND:
        whole = Seq(kind, xs)
        add("..", "%s .. 1" % S, E([whole, 1]))
        add("..", "1 .. %s" % S, E([1, whole]))
        for k in (0, 1, 3):
            add(".*", "%s .* %d" % (S, k), E([whole] * k))
            add("*.", "%d *. %s" % (k, S), E([whole] * k))
    else:
        add("..", "%s .. 1" % S, None)
    return out


class Neg:
    """reverses the order of a key (for the >=< comparator) while staying stable"""

    def __init__(self, x):
        self.x = x

    def __lt__(self, o):
        return self.x > o.x

    def __gt__(self, o):
        return self.x < o.x


class _Nope:
    pass


NOPE = _Nope()


def conv_or_raise(v):
    return RAISE if v is RAISE or v == RAISE else ("exact", conv(v))


# strings-only functions: split / words / lines / join over every short string of a separator alphabet (every ASCII
# whitespace / line-ending character that the functions could treat specially, two letters, the separator)
STRING_ALPHA = ["a", "b", ",", " ", "\n", "\r", "\t"]
def string_forms(s):
    lit = json.dumps(s, ensure_ascii=False)
    out = []
    parts = s.split(",")
    out.append(("split", '%s split ","' % lit, ("exact", conv(parts))))
    out.append(("split+join", '(%s split ",") join ","' % lit, ("exact", conv(s))))
    out.append(("words", "words(%s)" % lit, ("exact", conv(s.split()))))
    ls = s.split("\n")
    if ls and ls[-1] == "":
        ls = ls[:-1]
    out.append(("lines", "lines(%s)" % lit, ("exact", conv(ls))))
    out.append(("split", '%s split ", "' % lit, ("exact", conv(s.split(", ")))))
    out.append(("unwords", "unwords(words(%s))" % lit, ("exact", conv(" ".join(s.split())))))
    return out


def sequences(kind, maxlen):
    if kind == "range":
        for n in range(0, maxlen + 1):
            yield list(range(1, n + 1))
        return
    if kind == "srange":
        for n in range(0, maxlen + 1):
            yield list(range(1, 2 * n, 2))
        return
    alpha = KINDS[kind]
    if kind == "set":
        for L in range(0, min(maxlen, 4) + 1):
            for c in itertools.combinations(alpha, L):
                yield list(c)
        return
    for L in range(0, maxlen + 1):
        for t in itertools.product(alpha, repeat=L):
            yield list(t)


def bounds(tier):
    return {"kinds": list(KINDS), "max_len": 4 if tier == "quick" else 6, "alphabets": {k: [str(x) for x in (v or ["1..n"])] for k, v in KINDS.items()},
            "string_fn_alphabet": [repr(c)[1:-1] for c in STRING_ALPHA], "string_fn_max_len": 4 if tier == "quick" else 6}


def cases(tier, shard, nshards):
    maxlen = 4 if tier == "quick" else 6
    cnt = 0
    for kind in KINDS:
        for xs in sequences(kind, maxlen):
            cnt += 1
            if cnt % nshards != shard:
                continue
            S = src_of(kind, xs)
            for (name, src, exp) in forms(kind, xs, S):
                if exp is None:
                    continue
                yield Case(src, {"fn": name, "kind": kind, "n": len(xs), "exp": exp if exp == RAISE else list(exp)})
            # the same forms with the input HELD by a variable (so it is shared when the builtin sees it, and must be intact afterwards):
            # a function of values may not depend on who else holds the value
            same = "(xx_ == %s)" % S if kind == "set" else "(list(xx_) == list(%s))" % S
            for (name, src, exp) in forms(kind, xs, "xx_"):
                if exp is None:
                    continue
                prog = "xx_ := %s; rr_ := (%s); [rr_, %s]" % (S, src, same)
                yield Case(prog, {"fn": name, "kind": kind, "n": len(xs), "exp": exp if exp == RAISE else list(exp), "held": True})
    # long inputs (beyond the small-input paths of sorting / grouping / buffering code): one fixed pattern per kind and length,
    # with equal-but-not-identical neighbours (1 / 1.0) so that stability and first occurrence stay visible
    for kind in ("list", "vector", "bytes", "string", "wstream", "range", "srange"):
        for n_ in ((21, 33) if tier == "quick" else (17, 21, 33, 64, 100)):
            cnt += 1
            if cnt % nshards != shard:
                continue
            alpha = KINDS[kind]
            xs = list(range(1, n_ + 1)) if kind == "range" else list(range(1, 2 * n_, 2)) if kind == "srange" else [alpha[(i * i + 3 * i) % len(alpha)] for i in range(n_)]
            S = src_of(kind, xs)
            for (name, src, exp) in forms(kind, xs, S):
                if exp is None or name in ("^^",) and n_ > 33:
                    continue
                yield Case(src, {"fn": name, "kind": kind, "n": len(xs), "exp": exp if exp == RAISE else list(exp), "long": 1}, opts={"fuel": 2000000, "step_ms": 20000, "compact": True, "cap": 5000})
    smax = 4 if tier == "quick" else 6
    for L in range(0, smax + 1):
        for t in itertools.product(STRING_ALPHA, repeat=L):
            cnt += 1
            if cnt % nshards != shard:
                continue
            s = "".join(t)
            for (name, src, exp) in string_forms(s):
                yield Case(src, {"fn": name, "kind": "text", "n": L, "exp": list(exp)})


def nontrivial(case, rs):
    return case.meta["n"] > 0


def ms(xs):
    return sorted(json.dumps(x, sort_keys=True) for x in xs)


def numval(c):
    from ..canon import num_value
    if isinstance(c, list) and c and c[0] in ("i", "I", "f", "q"):
        return num_value(c)
    if isinstance(c, list) and c and c[0] == "s":
        return c[1]
    return None


def judge(case, rs):
    m = case.meta
    exp = m["exp"]
    r = rs[0]
    st = r.get("st")
    src = case.steps[0]
    sig = "C13 fn=%s kind=%s len=%s" % (m["fn"], m["kind"], "0" if m["n"] == 0 else ("1" if m["n"] == 1 else "2+"))
    if exp == RAISE:
        if st == "ok":
            return [Violation(sig + " result=no-error", "%s gave %s, the specification raises" % (src, r.get("v")), "raise", r.get("v"))]
        if st in ("panic", "abort", "hang"):
            return [Violation(sig + " result=" + st, "%s: %s" % (src, r.get("e")), "raise", st)]
        return []
    if st != "ok":
        return [Violation(sig + " result=" + str(st), "%s: expected %s, status %s %s" % (src, json.dumps(exp)[:200], st, r.get("e")), exp, st)]
    got = norm(r["v"])
    if m.get("held"):
        if not (isinstance(got, list) and got and got[0] == "l" and len(got[1]) == 2):
            return [Violation(sig + " result=malformed", "%s gave %s" % (src, json.dumps(got)[:200]), exp, got)]
        if got[1][1] != cI(1):
            return [Violation(sig + " held=1 result=operand-changed", "%s: the variable holding the input no longer equals the input (%s)" % (src, json.dumps(got)[:300]), 1, got[1][1])]
        got = got[1][0]
        sig += " held=1"
    t = exp[0]
    ok = True
    if t == "exact":
        ok = got == exp[1]
    elif t == "multiset":
        ok = isinstance(got, list) and got and got[0] in ("l",) and ms(got[1]) == ms(exp[1])
    elif t == "sorted-multiset":
        ok = isinstance(got, list) and got[0] == "l" and ms(got[1]) == ms(exp[1]) and \
            all(numval(a) <= numval(b) for a, b in zip(got[1], got[1][1:]))
    elif t == "all-identical":
        ok = isinstance(got, list) and got[0] == "l" and len(got[1]) >= 2 and all(x == got[1][0] for x in got[1][1:])
    elif t == "numeq":
        want = exp[1]
        ok = numval(got) is not None and numval(got) == want
    elif t == "elems":
        ok = isinstance(got, list) and got and ((got[0] == "l" and got[1] == exp[1]) or (got[0] == "S" and got[3] == "end" and got[2] == exp[1]))
    elif t == "dict":
        ok = resort(got) == resort(exp[1])
    elif t == "partition":
        yes, no, unordered = exp[1], exp[2], exp[3]
        ok = isinstance(got, list) and got[0] == "l" and len(got[1]) == 2
        if ok:
            gy, gn = elems(got[1][0]), elems(got[1][1])
            ok = (ms(gy) == ms(yes) and ms(gn) == ms(no)) if unordered else (gy == yes and gn == no)
    if not ok:
        return [Violation(sig + " result=wrong-value", "%s gave %s, specification says %s" % (src, json.dumps(got)[:300], json.dumps(exp)[:300]), exp, got)]
    return []


def elems(c):
    """elements of a canon sequence as canon values"""
    if not isinstance(c, list) or not c:
        return None
    if c[0] == "l":
        return c[1]
    if c[0] == "v":
        return c[1]
    if c[0] == "b":
        return [cI(x) for x in c[1]]
    if c[0] == "s":
        return [["s", ch] for ch in c[1]]
    return None
