"""C05 - control flow, scoping and closures follow the documented semantics.

(a) Every program of a core grammar with at most N AST nodes (N = 4 quick / 5 thorough) over the
    variables {x, y}, the integers {0, 1, 2}, print, :=, =, +, <, sequencing, if/else, while, for,
    yield, break, continue, return, try/catch/throw, and/or/coalesce, lambdas and calls.
(b) Exhaustive feature products that reach the depth small N cannot: loops x non-local exits,
    scoping sites x actions, closures (capture / per-iteration / escaping), lambda parameter shapes x
    argument counts, short-circuit trees over side-effecting operands, yield / yield k: v / into,
    eval at every site.
Oracle: an independent reference interpreter of the documented rules (vlib/refinterp.py) gives
(value, printed output, raised?); compared with the engine's canonical value, captured output and
status. Programs the reference cannot decide (step budget, error-message texts, display forms
of functions, break/continue crossing a call boundary) are dropped from the comparison and counted.
"""
import itertools
import json

from ..canon import norm, resort
from ..core import Case, Violation
from .. import refinterp as R

PROP = "C05"
LEVEL = "exploration"
TECHNIQUE = "bounded exhaustive enumeration of core-grammar programs and feature products on the real interpreter vs an independent reference interpreter of the documented scoping/control-flow rules"
RULE = ("every program of the core grammar up to the node bound and every member of the feature products is run once; non-trivial = the "
        "reference decides it (not skipped) and it has at least 3 AST nodes; distinct by program text")
ASSUMPTIONS = ["vlib/refinterp.py encodes the documented rules (README, DESIGN.md Appendix A.1)",
               "break/continue crossing a call boundary, error-message texts and function display forms are not asserted"]
SHARDED = True
OPTS = {"fuel": 6000, "depth": 60, "compact": True, "step_ms": 2000, "cap": 16}

I = lambda n: ("int", n)
V = lambda x: ("var", x)
X, Y = V("x"), V("y")


# ---------------------------------------------------------------- (a) all programs up to N nodes
ATOMS = [I(0), I(1), I(2), X, Y, ("null",), ("break", 0, None), ("continue", 0), ("return", None)]


def unary(e):
    yield ("print", e)
    yield ("throw", e)
    yield ("break", 0, e)
    yield ("return", e)
    yield ("decl", "x", e)
    yield ("decl", "y", e)
    yield ("set", "x", e)
    yield ("lambda", [], e)
    yield ("lambda", [("p", "x")], e)
    yield ("call", e, [])
    yield ("list", [e])


def binary(a, b):
    yield ("bin", "+", a, b)
    yield ("bin", "<", a, b)
    yield ("seq", [a, b])
    yield ("if", a, b, None)
    yield ("while", a, b)
    yield ("for", [("each", "x", a)], ("do", b))
    yield ("for", [("each", "y", a)], ("yield", b, None))
    yield ("and", a, b)
    yield ("or", a, b)
    yield ("coalesce", a, b)
    yield ("try", a, "y", b)
    yield ("call", a, [b])
    yield ("list", [a, b])
    yield ("opset", "x", "+", b) if a == X else ("bin", "==", a, b)


_memo = {}


def programs(n):
    """all ASTs with exactly n nodes"""
    if n in _memo:
        return _memo[n]
    if n == 1:
        out = list(ATOMS)
    else:
        out = []
        for e in programs(n - 1):
            out.extend(unary(e))
        for k in range(1, n - 1):
            for a in programs(k):
                for b in programs(n - 1 - k):
                    out.extend(binary(a, b))
        if n >= 4:
            for k1 in range(1, n - 2):
                for k2 in range(1, n - 1 - k1):
                    k3 = n - 1 - k1 - k2
                    if k3 < 1:
                        continue
                    for a in programs(k1):
                        for b in programs(k2):
                            for c in programs(k3):
                                out.append(("if", a, b, c))
    _memo[n] = out
    return out


# ---------------------------------------------------------------- (b) feature products
def seq(*xs):
    return ("seq", list(xs))


def P(e):
    return ("print", e)


def fam_loops():
    """outer loop kind x inner loop kind x exit x guard x position x wrapper"""
    exits = [("break", 0, None), ("break", 0, I(7)), ("break", 1, None), ("break", 1, I(8)), ("continue", 0), ("continue", 1), ("return", I(9)), ("throw", I(5))]
    L12 = ("list", [I(1), I(2)])
    L34 = ("list", [I(3), I(4)])

    def loop(kind, var, it, body):
        if kind == "for":
            return ("for", [("each", var, it)], ("do", body))
        if kind == "foryield":
            return ("for", [("each", var, it)], ("yield", body, None))
        if kind == "for2":
            return ("for", [("each", var, it), ("each", var + "2", L34)], ("yield", body, None))
        # every kind of for-clause as the innermost one: index/value iteration, a declaration clause, a guard
        if kind == "foritem":
            return ("for", [("item", var + "k", var, it)], ("do", body))
        if kind == "foritemyield":
            return ("for", [("item", var + "k", var, it)], ("yield", body, None))
        if kind == "foreachitem":
            return ("for", [("each", var + "o", L34), ("item", var + "k", var, it)], ("yield", body, None))
        if kind == "forlet":
            return ("for", [("each", var + "o", it), ("let", var, V(var + "o"))], ("do", body))
        if kind == "forguard":
            return ("for", [("each", var, it), ("guard", I(1))], ("yield", body, None))
        if kind == "while":
            cnt = "c" + var
            return seq(("decl", cnt, I(0)), ("while", ("bin", "<", V(cnt), I(2)),
                                             seq(("opset", cnt, "+", I(1)), ("decl", var, V(cnt)), body)))
        raise KeyError(kind)
    for ok in ("for", "foryield", "while", "for2", "foritem"):
        for ik in ("for", "foryield", "while", "foritem", "foritemyield", "foreachitem", "forlet", "forguard"):
            for ex in exits:
                for guard in (("bin", "==", V("j"), I(2)), ("bin", "==", V("j"), I(1)), I(1)):
                    for pos in ("before", "after"):
                        pr = P(("list", [V("i"), V("j")]))
                        inner_body = seq(("if", guard, ex, None), pr, V("j")) if pos == "before" else seq(pr, ("if", guard, ex, None), V("j"))
                        inner = loop(ik, "j", L12, inner_body)
                        for wrap in ("none", "try-inner", "try-outer", "lambda"):
                            body_outer = seq(P(V("i")), inner if wrap != "try-inner" else ("try", inner, "e", P(("list", [I(0), V("e")]))), P(I(100)), V("i"))
                            outer = loop(ok, "i", L12, body_outer)
                            prog = outer
                            if wrap == "try-outer":
                                prog = ("try", outer, "e", ("list", [I(-1), V("e")]))
                            if wrap == "lambda":
                                prog = ("call", ("lambda", [], seq(outer, I(55))), [])
                            yield seq(prog, P(I(200)))
                            yield prog


def fam_scoping():
    sites = ["top", "if", "for", "while", "lambda", "catch", "try", "forlet", "else", "and", "switch", "switch2", "switchbind", "switchlist", "switchfail",
             # the construct itself binds v (a parameter - plain, defaulted, splat -, the loop variable, the catch variable): the action runs in
             # that very scope, so declaring v again is refused there and assigning v changes the construct's variable
             "lambdaparam", "lambdadefault", "lambdasplat", "forvar", "catchvar"]
    actions = [("decl", "v", I(5)), ("set", "v", I(6)), P(V("v")), seq(("decl", "v", I(5)), ("set", "v", I(6)), P(V("v")))]

    def at(site, act):
        if site == "top":
            return act
        if site == "if":
            return ("if", I(1), act, None)
        if site == "else":
            return ("if", I(0), I(0), act)
        if site == "for":
            return ("for", [("each", "i", ("list", [I(1), I(2)]))], ("do", act))
        if site == "forlet":
            return ("for", [("let", "w", I(1)), ("each", "i", ("list", [I(1)]))], ("do", act))
        if site == "while":
            return seq(("decl", "n", I(0)), ("while", ("bin", "<", V("n"), I(2)), seq(("opset", "n", "+", I(1)), act)))
        if site == "lambda":
            return ("call", ("lambda", [], act), [])
        if site == "lambdaparam":
            return ("call", ("lambda", [("p", "v")], act), [I(7)])
        if site == "lambdadefault":
            return ("call", ("lambda", [("pd", "v", I(3))], act), [])
        if site == "lambdasplat":
            return ("call", ("lambda", [("ps", "v")], act), [I(7)])
        if site == "forvar":
            return ("for", [("each", "v", ("list", [I(1), I(2)]))], ("do", act))
        if site == "catchvar":
            return ("try", ("throw", I(1)), "v", act)
        if site == "catch":
            return ("try", ("throw", I(1)), "e", act)
        if site == "try":
            return ("try", act, "e", P(I(-1)))
        if site == "and":
            return ("and", I(1), act)
        if site == "switch":
            return ("switch", I(1), [(("plit", 1), act), (("pwild",), I(0))])
        if site == "switch2":      # an earlier arm binds v; the action runs in a later arm, where that binding must not exist
            return ("switch", I(2), [(("plit", 1), I(0)), (("plist", ["v"]), P(V("v"))), (("pwild",), act)])
        if site == "switchbind":   # the arm's own pattern binds v
            return ("switch", I(3), [(("pname", "v"), act)])
        if site == "switchlist":
            return ("switch", ("list", [I(3), I(4)]), [(("plist", ["v"]), I(0)), (("plist", ["w", "v"]), act)])
        if site == "switchfail":   # an arm binds v and then fails on its literal: the binding must be gone in the arm that runs
            return ("switch", ("list", [I(3), I(4)]), [(("plistl", ["v"], 9), I(0)), (("plist", ["w", "q"]), act)])
        raise KeyError(site)
    for outer in (True, False):
        for s1 in sites:
            for a1 in actions:
                for s2 in sites:
                    for a2 in actions[:3]:
                        parts = []
                        if outer:
                            parts.append(("decl", "v", I(1)))
                        parts.append(at(s1, a1))
                        parts.append(at(s2, a2))
                        parts.append(("try", P(V("v")), "e", P(I(-9))))
                        yield seq(*parts)


def fam_closures():
    L = ("list", [I(1), I(2), I(3)])
    # capture then mutate outside / inside
    for mutate_where in ("outside", "inside", "both"):
        for declare_after in (False, True):
            body = []
            body.append(("decl", "v", I(1)))
            body.append(("decl", "f", ("lambda", [], V("v"))))
            body.append(("decl", "g", ("lambda", [("p", "k")], ("set", "v", ("bin", "+", V("v"), V("k"))))))
            if mutate_where in ("outside", "both"):
                body.append(("set", "v", I(10)))
            if mutate_where in ("inside", "both"):
                body.append(("call", V("g"), [I(5)]))
            body.append(("list", [("call", V("f"), []), V("v")]))
            yield seq(*body)
    # one closure per loop iteration
    for loopk in ("for", "while", "foryield"):
        for mut in (False, True):
            clo = ("lambda", [], ("list", [V("i"), V("t")]))
            if loopk == "for":
                mk = seq(("decl", "fs", ("list", [])),
                         ("for", [("each", "i", L)], ("do", seq(("decl", "t", V("i")), ("opset", "fs", "append", clo),
                                                                 ("opset", "t", "+", I(10)) if mut else I(0)))))
            elif loopk == "foryield":
                mk = ("decl", "fs", ("for", [("each", "i", L)], ("yield", seq(("decl", "t", ("bin", "*", V("i"), I(2))), clo), None)))
            else:
                mk = seq(("decl", "fs", ("list", [])), ("decl", "n", I(0)),
                         ("while", ("bin", "<", V("n"), I(3)), seq(("opset", "n", "+", I(1)), ("decl", "i", V("n")), ("decl", "t", V("n")),
                                                                   ("opset", "fs", "append", clo),
                                                                   ("opset", "t", "+", I(10)) if mut else I(0))))
            yield seq(mk, ("for", [("each", "h", V("fs"))], ("yield", ("call", V("h"), []), None)))
    # counters: closures that escape by return and keep state
    for nmk in (1, 2):
        mkc = ("decl", "mk", ("lambda", [("p", "s")], seq(("decl", "c", V("s")), ("lambda", [], seq(("opset", "c", "+", I(1)), V("c"))))))
        calls = [("decl", "a", ("call", V("mk"), [I(0)]))]
        if nmk == 2:
            calls.append(("decl", "b", ("call", V("mk"), [I(10)])))
        seqs = [("call", V("a"), []), ("call", V("a"), [])]
        if nmk == 2:
            seqs += [("call", V("b"), []), ("call", V("a"), [])]
        yield seq(mkc, *calls, ("list", seqs))
    # lexical not dynamic
    yield seq(("decl", "v", I(1)), ("decl", "f", ("lambda", [], V("v"))), ("decl", "g", ("lambda", [], seq(("decl", "v", I(5)), ("call", V("f"), [])))),
              ("call", V("g"), []))
    yield seq(("decl", "f", ("lambda", [], V("late"))), ("decl", "late", I(3)), ("call", V("f"), []))
    yield seq(("decl", "f", ("lambda", [], V("never"))), ("try", ("call", V("f"), []), "e", I(-1)))
    # a scope that is still EMPTY when a nested scope (and a closure in it) is created declares a name only afterwards: the
    # closure must find that later declaration (its chain of scopes is fixed when it is created, not what they hold)
    L12 = ("list", [I(1), I(2)])
    for outer_k in (True, False):
        for inner in ("foryield", "fordo", "iife", "while"):
            for late in ("decl", "declthenset"):
                for host in ("lambda0", "whilebody", "forbody", "catch"):
                    clo = ("lambda", [], ("list", [V("i"), ("try", V("k"), "q", I(-5))]))
                    if inner == "foryield":
                        mk = ("decl", "gs", ("for", [("each", "i", L12)], ("yield", clo, None)))
                    elif inner == "fordo":
                        mk = seq(("decl", "gs", ("list", [])), ("for", [("each", "i", L12)], ("do", ("opset", "gs", "append", clo))))
                    elif inner == "iife":
                        mk = ("decl", "gs", ("list", [("call", ("lambda", [("p", "i")], clo), [I(7)])]))
                    else:
                        mk = seq(("decl", "gs", ("list", [])), ("decl", "n", I(0)),
                                 ("while", ("bin", "<", V("n"), I(2)), seq(("opset", "n", "+", I(1)), ("decl", "i", V("n")), ("opset", "gs", "append", clo))))
                    latepart = [("decl", "k", I(10))] + ([("set", "k", I(11))] if late == "declthenset" else [])
                    use = ("for", [("each", "g", V("gs"))], ("yield", ("call", V("g"), []), None))
                    if inner in ("fordo", "while") and host != "lambda0":
                        continue      # these declare gs / n first, so the host scope is not empty any more: covered by lambda0 only for contrast
                    inside = seq(mk, *latepart, use)
                    if host == "lambda0":
                        prog = ("call", ("lambda", [], inside), [])
                    elif host == "whilebody":
                        prog = seq(("decl", "once", I(0)), ("decl", "res", ("null",)),
                                   ("while", ("bin", "<", V("once"), I(1)), seq(("set", "res", inside), ("opset", "once", "+", I(1)))), V("res"))
                    elif host == "forbody":
                        prog = ("for", [("each", "z", ("list", [I(0)]))], ("yield", inside, None))
                    else:
                        prog = ("try", ("throw", I(1)), "_", inside)
                    yield seq(*([("decl", "k", I(1))] if outer_k else []), ("list", [prog, ("try", V("k"), "q", I(-6))]))
    # recursion through a captured name
    yield seq(("decl", "fact", ("lambda", [("p", "n")], ("if", ("bin", "<", V("n"), I(1)), I(1), ("bin", "*", V("n"), ("call", V("fact"), [("bin", "-", V("n"), I(1))]))))),
              ("call", V("fact"), [I(5)]))


def fam_lambdas():
    shapes = [
        [("p", "a")], [("p", "a"), ("p", "b")], [("p", "a"), ("pd", "b", I(7))], [("pd", "a", I(6)), ("pd", "b", I(7))],
        [("p", "a"), ("pd", "b", seq(P(I(70)), I(7)))], [("ps", "r")], [("p", "a"), ("ps", "r")], [("ps", "r"), ("p", "a")],
        [("p", "a"), ("ps", "r"), ("p", "b")], [], [("p", "a"), ("pd", "b", V("outer"))],
        # defaults around a splat, a default before a plain parameter
        [("ps", "r"), ("pd", "c", I(7))], [("p", "a"), ("ps", "r"), ("pd", "c", I(7))], [("pd", "a", I(6)), ("ps", "r")], [("pd", "a", I(6)), ("p", "b")],
        [("p", "a"), ("ps", "r"), ("pd", "c", seq(P(I(70)), I(7)))], [("pd", "a", seq(P(I(60)), I(6))), ("ps", "r"), ("pd", "c", seq(P(I(70)), I(7)))],
        [("pd", "a", seq(P(I(60)), I(6))), ("ps", "r"), ("p", "b")],
    ]
    for sh in shapes:
        names = [p[1] for p in sh]
        body = ("list", [V(n) for n in names])
        for nargs in range(0, 4):
            args = [seq(P(I(10 + k)), I(k + 1)) for k in range(nargs)]
            yield seq(("decl", "outer", I(99)), ("decl", "f", ("lambda", sh, body)), ("try", ("call", V("f"), args), "e", I(-1)))
            yield seq(("decl", "outer", I(99)), ("call", ("lambda", sh, seq(("return", body), I(0))), args))


def fam_shortcircuit():
    ops = ["and", "or", "coalesce"]
    vals = [I(0), I(1), ("null",), ("list", [])]

    def leaf(k, v):
        return seq(P(I(k)), v)
    for o1 in ops:
        for o2 in ops:
            for a in vals:
                for b in vals:
                    for c in vals[:3]:
                        yield (o1, leaf(1, a), (o2, leaf(2, b), leaf(3, c)))
                        yield (o1, (o2, leaf(1, a), leaf(2, b)), leaf(3, c))
    for o1 in ops:
        for o2 in ops:
            for o3 in ops:
                for a, b in itertools.product(vals[:3], repeat=2):
                    yield (o1, leaf(1, a), (o2, leaf(2, b), (o3, leaf(3, a), leaf(4, I(2)))))


def fam_yield():
    intos = [None, V("sum"), V("count"), V("max"), V("min"), V("first"), V("last"), V("any"), V("all"), ("lambda", [("p", "zs")], ("call", V("len"), [V("zs")])),
             ("lambda", [("p", "zs")], ("list", [V("zs")]))]
    seqs = [("list", []), ("list", [I(1)]), ("list", [I(2), I(0), I(3)]), ("list", [I(0), I(0)])]
    clause_shapes = ["one", "two", "guard", "let", "item"]
    bodies = ["plain", "break", "breakv", "continue", "print"]
    for into in intos:
        for s in seqs:
            for cs in clause_shapes:
                for bd in bodies:
                    if cs == "one":
                        cl = [("each", "i", s)]
                        val = V("i")
                    elif cs == "two":
                        cl = [("each", "i", s), ("each", "j", ("list", [I(1), I(2)]))]
                        val = ("bin", "*", V("i"), V("j"))
                    elif cs == "guard":
                        cl = [("each", "i", s), ("guard", ("bin", "<", V("i"), I(3)))]
                        val = V("i")
                    elif cs == "let":
                        cl = [("each", "i", s), ("let", "k", ("bin", "+", V("i"), I(1)))]
                        val = V("k")
                    else:
                        cl = [("item", "n", "i", s)]
                        val = ("bin", "+", V("n"), V("i"))
                    if bd == "plain":
                        body = val
                    elif bd == "break":
                        body = seq(("if", ("bin", "==", V("i"), I(0)), ("break", 0, None), None), val)
                    elif bd == "breakv":
                        body = seq(("if", ("bin", "==", V("i"), I(0)), ("break", 0, I(77)), None), val)
                    elif bd == "continue":
                        body = seq(("if", ("bin", "==", V("i"), I(0)), ("continue", 0), None), val)
                    else:
                        body = seq(P(V("i")), val)
                    yield ("try", ("for", cl, ("yield", body, into)), "e", I(-1))
                    if cs in ("one", "guard"):
                        # a key whose value expression leaves the iteration (continue / break) must not appear in the result
                        key = ("bin", "<", V("i"), I(2))
                        yield ("try", ("for", cl, ("yieldkv", key, body, into)), "e", I(-1))
                        if bd in ("break", "continue", "breakv"):
                            yield ("try", ("for", cl, ("yieldkv", V("i"), body, into)), "e", I(-1))
                            yield ("try", ("for", cl, ("yieldkv", seq(P(I(5)), V("i")), body, into)), "e", I(-1))


def fam_eval():
    sites = ["top", "lambda", "for", "if", "catch"]
    snippets = [("decl", "z", I(5)), ("set", "v", I(6)), V("v"), ("bin", "+", V("v"), I(1)), ("decl", "v", I(8)), ("throw", I(3)), ("break", 0, I(4)),
                ("return", I(2))]

    def at(site, e):
        if site == "top":
            return e
        if site == "lambda":
            return ("call", ("lambda", [], seq(e, ("try", V("z"), "q", I(-2)))), [])
        if site == "for":
            return ("for", [("each", "i", ("list", [I(1), I(2)]))], ("yield", seq(e, V("i")), None))
        if site == "if":
            return ("if", I(1), e, None)
        return ("try", ("throw", I(0)), "q", e)
    for site in sites:
        for sn in snippets:
            yield seq(("decl", "v", I(1)), ("try", at(site, ("eval", sn)), "e", ("list", [I(-1), V("e")]) if sn[0] == "throw" else I(-1)),
                      ("list", [("try", V("v"), "q", I(-3)), ("try", V("z"), "q", I(-4))]))


def fam_catchpat():
    """refutable catch patterns: a thrown value the pattern does not match travels on unchanged to the enclosing handler - which
    observes it by binding it or by selecting on it -, a matching one binds the pattern's names in the handler's scope only"""
    thrown = [I(1), I(2), ("list", [I(1), I(2)]), ("list", [I(2), I(1)]), ("list", [I(1), I(2), I(3)]), ("list", [])]
    pats = [("plit", 1), ("plit", 2), ("plist", ["a", "b"]), ("plistl", ["a"], 2), ("plist", []), ("pname", "a"), ("pwild", "_")]

    def handler(p):
        names = p[1] if p[0] in ("plist", "plistl") else ([p[1]] if p[0] == "pname" else [])
        return ("list", [I(10)] + [V(n) for n in names])
    observers = [lambda e: ("try", e, "x", ("list", [I(-1), V("x")])),
                 lambda e: ("try", e, ("plit", 2), I(-2)),
                 lambda e: ("try", e, ("plist", ["c", "d"]), ("list", [I(-3), V("d"), V("c")])),
                 lambda e: ("call", ("lambda", [], ("try", e, "x", ("list", [I(-4), V("x")]))), []),
                 lambda e: ("for", [("each", "i", ("list", [I(1), I(2)]))], ("yield", ("try", e, "x", ("list", [V("i"), V("x")])), None))]
    bodies = [lambda t: ("throw", t),
              lambda t: seq(P(I(0)), ("throw", t), P(I(99))),
              lambda t: ("call", ("lambda", [], ("throw", t)), []),
              lambda t: ("for", [("each", "j", ("list", [I(5), I(6)]))], ("yield", ("throw", t), None))]
    for t in thrown:
        for p in pats:
            for bi, body in enumerate(bodies):
                inner = ("try", body(t), p, handler(p))
                for oi, obs in enumerate(observers):
                    if bi and oi > 2:
                        continue
                    # the outermost handler always binds, so that the value that finally travels is compared; `a` must not have leaked
                    yield ("list", [("try", obs(inner), "z", ("list", [I(-9), V("z")])), ("try", V("a"), "q", I(-7))])
            # two refutable handlers in a row, and a handler that throws again
            for p2 in pats[:5]:
                yield ("try", ("try", ("try", ("throw", t), p, handler(p)), p2, ("list", [I(20)] + handler(p2)[1][1:])), "z", ("list", [I(-9), V("z")]))
            yield ("try", ("try", ("try", ("throw", t), p, ("throw", ("list", [I(30)] + handler(p)[1][1:]))), ("plit", 1), I(40)), "z", ("list", [I(-9), V("z")]))
    # errors raised by the interpreter itself against refutable patterns: only raised / not raised and the handler chosen are modelled
    for p in pats:
        yield ("try", ("try", ("try", V("never"), p, I(10)), "x", I(-1)), "z", I(-9))


FAMILIES = [("loops", fam_loops), ("scoping", fam_scoping), ("closures", fam_closures), ("lambdas", fam_lambdas), ("shortcircuit", fam_shortcircuit),
            ("yield", fam_yield), ("eval", fam_eval), ("catchpat", fam_catchpat)]


def bounds(tier):
    n = 4 if tier == "quick" else 5
    return {"grammar_max_nodes": n, "grammar_programs": sum(len(programs(k)) for k in range(1, n + 1)),
            "families": [f for f, _ in FAMILIES], "reference_step_budget": 4000}


def cases(tier, shard, nshards):
    cnt = 0
    n = 4 if tier == "quick" else 5
    for k in range(1, n + 1):
        for prog in programs(k):
            cnt += 1
            if cnt % nshards != shard:
                continue
            yield Case(R.render(prog), {"fam": "grammar", "ast": prog, "nodes": k}, opts=OPTS)
            if k >= 2:
                # the same program after `x := 1; y := [0, 2]` so that reads, assignments and loops have something to act on
                withsetup = ("seq", [("decl", "x", ("int", 1)), ("decl", "y", ("list", [("int", 0), ("int", 2)])), prog])
                yield Case(R.render(withsetup), {"fam": "grammar+setup", "ast": withsetup, "nodes": k + 2}, opts=OPTS)
    for fam, gen in FAMILIES:
        for j, prog in enumerate(gen()):
            cnt += 1
            if cnt % nshards != shard:
                continue
            yield Case(R.render(prog), {"fam": fam, "ast": prog, "nodes": 9}, opts=OPTS)


def untuple(x):
    """JSON round-trips turn tuples into lists; the reference interpreter indexes both alike"""
    return x


def reference(meta):
    return R.run(meta["ast"])


def nontrivial(case, rs):
    return case.meta["nodes"] >= 3 and reference(case.meta)[0] != "skip"


def tally(case, rs, extra):
    out = reference(case.meta)[0]
    extra["reference_" + out] += 1
    extra["family:" + case.meta["fam"]] += 1


def strip_funcs(v):
    if isinstance(v, list):
        if v and v[0] == "F":
            return "FUNC"
        return [strip_funcs(x) for x in v]
    return v


def judge(case, rs):
    m = case.meta
    r = rs[0]
    st = r.get("st")
    src = case.steps[0]
    fam = m["fam"]
    sig0 = "C05 family=%s" % fam
    if st in ("panic", "abort", "hang"):
        return [Violation(sig0 + " result=" + st, "%s -> %s %s" % (src, st, r.get("e")), None, st)]
    if st == "parse_error":
        return [Violation(sig0 + " result=generated-program-does-not-parse", "%s: %s" % (src, r.get("e")), "parses", "parse_error")]
    if st == "fuel":
        return []
    outcome, val, out = reference(m)
    if outcome == "skip":
        return []
    got_out = r.get("o", "")
    feat = top_feature(m["ast"])
    if outcome == "raised":
        if st == "ok":
            return [Violation(sig0 + " top=%s result=no-error" % feat, "%s gave %s; the reference interpreter raises" % (src, json.dumps(r.get("v"))[:200]), "raised", r.get("v"))]
        if got_out != out:
            return [Violation(sig0 + " top=%s result=wrong-output-before-error" % feat, "%s printed %r, reference %r" % (src, got_out, out), out, got_out)]
        return []
    if R.contains_unmodelled(val):
        return []
    if st != "ok":
        return [Violation(sig0 + " top=%s result=%s" % (feat, st), "%s -> %s %s; reference value %s output %r" % (src, st, r.get("e"), json.dumps(R.to_canon(val))[:200], out), R.to_canon(val), st)]
    want = R.to_canon(val)
    got = strip_funcs(norm(r.get("v")))
    if resort(got) != resort(want):
        return [Violation(sig0 + " top=%s result=wrong-value" % feat, "%s gave %s, reference %s" % (src, json.dumps(got)[:250], json.dumps(want)[:250]), want, got)]
    if got_out != out:
        return [Violation(sig0 + " top=%s result=wrong-output" % feat, "%s printed %r, reference %r" % (src, got_out, out), out, got_out)]
    return []


def top_feature(ast):
    """coarse shape of the program for the violation signature: the multiset of control constructs used"""
    seen = set()

    def walk(e):
        if isinstance(e, (tuple, list)) and e and isinstance(e[0], str):
            if e[0] in ("while", "for", "break", "continue", "return", "try", "throw", "lambda", "call", "decl", "set", "opset", "eval", "and", "or", "coalesce", "if", "switch"):
                seen.add(e[0])
            for x in e[1:]:
                walk(x)
        elif isinstance(e, (tuple, list)):
            for x in e:
                walk(x)
    walk(ast)
    return "+".join(sorted(seen))[:80]
