"""C11 - lazy streams are coherent: length, iteration, indexing, slicing, reversal agree.

Alphabet: every finite stream constructor with all small parameter combinations (ranges with bounds and
steps of both signs incl. the 2^63 neighbourhood; permutations / subsequences / combinations /
cartesian powers of short lists; stream(seq); lazy map / filter / zip of finite streams) at every
drop position, observed through len, list, s[i], s[a:b], reverse, first, last, in, truthiness,
unpacking and `for`; every sequence of <= 2 (quick) / 3 (thorough) observations on one stream
variable (the variable must not change and each observation must answer as on a fresh stream);
infinite streams against their recurrences.
Oracle: Python range / itertools.
"""
import itertools

from ..canon import cI, cF, norm, lit_int
from ..core import Case, Violation

PROP = "C11"
LEVEL = "exploration"
TECHNIQUE = "bounded exhaustive enumeration of stream constructors x drop positions x observations (and observation histories) on the real interpreter vs Python range/itertools"
RULE = ("every (constructor instance, drop position, observation) and every observation history up to the bound is run once; "
        "non-trivial = the stream is non-empty or the observation is defined; distinct by program text")
ASSUMPTIONS = ["Python range()/itertools give the documented element orders", "step 0, [] ^^ 0 and impure mapping functions are not asserted"]
SHARDED = True
RAISE = "raise"
INF = ["f", "7ff0000000000000"]


def clist(xs):
    return ["l", list(xs)]


def ints(xs):
    return [cI(x) for x in xs]


def range_instances(tier):
    lo = 2 if tier == "quick" else 3
    vals = list(range(-lo, lo + 1))
    steps = [None] + [s for s in range(-lo, lo + 1) if s != 0]
    for a in vals:
        for b in vals:
            for s in steps:
                for word in ("til", "to"):
                    yield rng(a, b, s, word)
    B = 2 ** 63
    near = [B - 2, B - 1, B, B + 1]
    pts = near + [-x for x in near]
    for a in (pts if tier != "quick" else [B - 2, B, -B - 1, -B + 1]):
        for d in (-3, -1, 0, 1, 2, 4):
            for s in (None, 1, -1, 2, -2, B, -B, 2 * B):
                for word in ("til", "to"):
                    b = a + d
                    yield rng(a, b, s, word)
    for (a, b, s) in [(0, 10, B), (0, 10, 2 * B), (-B, B, B), (B, -B, -B), (-B - 1, B + 1, B), (0, 3 * B, B), (5, -5, -B)]:
        for word in ("til", "to"):
            yield rng(a, b, s, word)


def rng(a, b, s, word):
    st = 1 if s is None else s
    if word == "til":
        L = range(a, b, st)
    else:
        L = range(a, b + 1, st) if st > 0 else range(a, b - 1, st)
    src = "(%s %s %s%s)" % (lit_int(a), word, lit_int(b), "" if s is None else " by %s" % lit_int(s))
    return ("range", src, ints(L))


def base_list(n):
    return list(range(1, n + 1))


def comb_instances(tier):
    maxp = 4 if tier == "quick" else 5
    for n in range(0, maxp + 1):
        xs = base_list(n)
        lit = "[%s]" % ", ".join(map(str, xs))
        yield ("permutations", "permutations(%s)" % lit, [clist(ints(p)) for p in itertools.permutations(xs)])
    for n in range(0, (4 if tier == "quick" else 5) + 1):
        xs = base_list(n)
        lit = "[%s]" % ", ".join(map(str, xs))
        subs = []
        for mask in range(2 ** n):
            subs.append(clist(ints([xs[i] for i in range(n) if mask & (1 << (n - 1 - i))])))
        yield ("subsequences", "subsequences(%s)" % lit, subs)
        for k in range(0, n + 2):
            yield ("combinations", "combinations(%s, %d)" % (lit, k), [clist(ints(c)) for c in itertools.combinations(xs, k)])
    for n in range(0, 4):
        xs = base_list(n)
        lit = "[%s]" % ", ".join(map(str, xs))
        for k in range(0, 4):
            if n == 0 and k == 0:
                continue
            yield ("cartesian_power", "(%s ^^ %d)" % (lit, k), [clist(ints(c)) for c in itertools.product(xs, repeat=k)])
    # duplicates in the base list: positions, not values, are permuted
    yield ("permutations", "permutations([7, 7, 8])", [clist(ints(p)) for p in itertools.permutations([7, 7, 8])])
    yield ("combinations", "combinations([7, 7, 8], 2)", [clist(ints(p)) for p in itertools.combinations([7, 7, 8], 2)])
    yield ("permutations", 'permutations("ab")', [clist([["s", c] for c in p]) for p in itertools.permutations("ab")])


def wrapped_instances(tier):
    for n in range(0, 4):
        xs = [10 * (i + 1) for i in range(n)]
        yield ("stream(list)", "stream([%s])" % ", ".join(map(str, xs)), ints(xs))
        yield ("stream(vector)", "stream(V(%s))" % ", ".join(map(str, xs)), ints(xs))
        yield ("stream(bytes)", "stream(B[%s])" % ",".join(map(str, xs)), ints(xs))
        s = "aéb"[:n]
        yield ("stream(string)", 'stream("%s")' % s, [["s", c] for c in s])
        yield ("stream(range)", "stream(1 to %d)" % n, ints(range(1, n + 1)))


def lazy_instances(tier):
    for n in range(0, 6):
        r = list(range(1, n + 1))
        yield ("lazy_map", "((1 to %d) lazy_map (*10))" % n, ints([x * 10 for x in r]))
        yield ("lazy_filter", "((1 to %d) lazy_filter even)" % n, ints([x for x in r if x % 2 == 0]))
        yield ("lazy_filter", "((1 to %d) lazy_filter (\\x -> x > 1))" % n, ints([x for x in r if x > 1]))
        yield ("lazy_map", "((%d til 0 by (-1)) lazy_map (\\x -> x * x))" % n, ints([x * x for x in reversed(r)]))
        for m in range(0, 4):
            yield ("lazy_zip", "((1 to %d) lazy_zip (11 to %d))" % (n, 10 + m),
                   [clist(ints(p)) for p in zip(r, range(11, 11 + m))])
        # a zip with an infinite component is as long as its finite one; three-way zips; zip with a combining function
        yield ("lazy_zip", "(iota(7) lazy_zip (1 to %d))" % n, [clist(ints(p)) for p in zip(range(7, 7 + n), r)])
        yield ("lazy_zip", "((1 to %d) lazy_zip repeat(9))" % n, [clist(ints([x, 9])) for x in r])
        yield ("lazy_zip", "lazy_zip(cycle([5, 6]), (1 to %d), iota(0))" % n, [clist(ints([5 + (i % 2), x, i])) for i, x in enumerate(r)])
        yield ("lazy_zip", "((1 to %d) lazy_zip iota(3) with +)" % n, ints([x + 3 + i for i, x in enumerate(r)]))
        yield ("lazy_map", "((1 to %d) lazy_zip (1 to %d) lazy_map sum)" % (n, n), ints([2 * x for x in r]))
        yield ("lazy_map", "(stream([%s]) lazy_map (+1))" % ", ".join(map(str, r)), ints([x + 1 for x in r]))
        yield ("lazy_filter", "((1 to %d) lazy_map (*3) lazy_filter even)" % n, ints([x * 3 for x in r if (x * 3) % 2 == 0]))
    yield ("lazy_map", "(permutations([1, 2, 3]) lazy_map first)", ints([p[0] for p in itertools.permutations([1, 2, 3])]))


def finite_instances(tier):
    seen = set()
    for gen in (range_instances, comb_instances, wrapped_instances, lazy_instances):
        for inst in gen(tier):
            if inst[1] in seen:
                continue
            if len(inst[2]) > 130:
                continue
            seen.add(inst[1])
            yield inst


def probes(n):
    """index / bound probes: the whole window for short streams, a structured subset otherwise"""
    if n <= 6:
        return list(range(-n - 1, n + 2))
    return sorted({-n - 1, -n, -n + 1, -2, -1, 0, 1, 2, n // 2, n - 2, n - 1, n, n + 1})


OBS = ["len", "list", "reverse", "first", "last", "truthy", "not", "for", "in0", "inlast", "inabsent", "idx0", "idxlast", "idxneg", "slice1", "sliceneg", "unpack"]


def obs_src(name, L):
    n = len(L)
    return {
        "len": "len(s)", "list": "list(s)", "reverse": "reverse(s)", "first": "first(s)", "last": "last(s)",
        "truthy": "if (s) 1 else 0", "not": "not s", "for": "for (x <- s) yield x",
        "in0": "first(list(s) +. 0) in s", "inlast": "(s !! (-1)) in s",
        "inabsent": '"zz" in s', "idx0": "s[0]", "idxlast": "s[-1]", "idxneg": "s[%d]" % (-n if n else -1),
        "slice1": "s[1:]", "sliceneg": "s[-2:]",
        "unpack": "%s := s; [%s]" % (", ".join("u%d" % i for i in range(max(n, 2))), ", ".join("u%d" % i for i in range(max(n, 2)))),
    }[name]


def obs_expected(name, L):
    n = len(L)
    if name == "len":
        return ("exact", cI(n))
    if name in ("list", "for"):
        return ("exact", clist(L))
    if name == "reverse":
        return ("exact", clist(L[::-1]))
    if name in ("first", "idx0"):
        return ("exact", L[0]) if n else RAISE
    if name in ("last", "idxlast"):
        return ("exact", L[-1]) if n else RAISE
    if name == "idxneg":
        return ("exact", L[0]) if n else RAISE
    if name == "truthy":
        return ("exact", cI(int(n > 0)))
    if name == "not":
        return ("exact", cI(int(n == 0)))
    if name == "in0":
        return ("exact", cI(1)) if n else ("exact", cI(0))
    if name == "inlast":
        return ("exact", cI(1)) if n else RAISE
    if name == "inabsent":
        return ("exact", cI(0))
    if name == "slice1":
        return ("elems", L[1:])
    if name == "sliceneg":
        return ("elems", L[-2:])
    if name == "unpack":
        return ("exact", clist(L)) if n >= 2 else RAISE   # two names at least: a single name is not a sequence pattern
    raise KeyError(name)


def matches(m, got):
    got = norm(got)
    if m[0] == "exact":
        return got == m[1]
    if m[0] == "elems":
        if not isinstance(got, list):
            return False
        if got[0] == "l":
            return got[1] == m[1]
        if got[0] == "S":
            return got[3] == "end" and got[2] == m[1]
    return False


def bounds(tier):
    insts = list(finite_instances(tier))
    from collections import Counter
    return {"finite_instances": len(insts), "by_constructor": dict(Counter(i[0] for i in insts)),
            "drop_positions": "0..len+1 (all when len<=6, structured subset beyond)",
            "history_length": 2 if tier == "quick" else 3, "history_alphabet": OBS,
            "infinite": ["iota", "repeat", "cycle", "iterate"], "prefix": 8}


def cases(tier, shard, nshards):
    cnt = 0
    opts = {"cap": 200}
    for (ctor, src, L0) in finite_instances(tier):
        n0 = len(L0)
        drops = list(range(0, n0 + 2)) if n0 <= 6 else [0, 1, 2, n0 // 2, n0 - 1, n0, n0 + 1]
        for p in drops:
            cnt += 1
            if cnt % nshards != shard:
                continue
            L = L0[p:]
            n = len(L)
            ssrc = src if p == 0 else "(%s drop %d)" % (src, p)
            base = {"ctor": ctor, "src": ssrc, "L": L, "drop": p}
            pre = "s := %s; " % ssrc
            for name in OBS:
                yield Case(pre + obs_src(name, L), dict(base, op=name), opts=opts)
            for i in probes(n):
                yield Case(pre + "s[%s]" % lit_int(i), dict(base, op="index", i=i), opts=opts)
                yield Case("%s[%s]" % (ssrc, lit_int(i)), dict(base, op="index", i=i), opts=opts)
                if abs(i) <= n + 1:
                    # the same index / bound / count held in big representation (a small value that went through a big intermediate)
                    bi = "((2^70+%d)-2^70)" % i if i >= 0 else "((2^70-%d)-2^70)" % (-i)
                    yield Case(pre + "s[%s]" % bi, dict(base, op="index", i=i, rep="big"), opts=opts)
                    yield Case(pre + "s[%s:]" % bi, dict(base, op="slice", a=i, b=None, rep="big"), opts=opts)
                    yield Case(pre + "s[:%s]" % bi, dict(base, op="slice", a=None, b=i, rep="big"), opts=opts)
            pr = [None] + probes(n)
            for a in pr:
                for b in pr:
                    yield Case(pre + "s[%s:%s]" % ("" if a is None else lit_int(a), "" if b is None else lit_int(b)),
                               dict(base, op="slice", a=a, b=b), opts=opts)
            for x in L[:3]:
                yield Case(pre + "%s in s" % render_lit(x), dict(base, op="in", x=x), opts=opts)
                if x[0] in ("i", "I"):
                    # the same element at another numeric level / representation, and near misses
                    v = int(x[1])
                    if abs(v) < 2 ** 53:      # beyond that the float is a different number
                        yield Case(pre + "float(%s) in s" % lit_int(v), dict(base, op="in", x=x), opts=opts)
                    yield Case(pre + "((2^70+%s)-2^70) in s" % lit_int(v), dict(base, op="in", x=x), opts=opts)
                    yield Case(pre + "(%s + 1/2) in s" % lit_int(v), dict(base, op="notin", x=x), opts=opts)
            for probe_ in ('"a"', "null", "[1]", "(1/3)", "1.5"):
                yield Case(pre + "%s in s" % probe_, dict(base, op="notin_other", probe=probe_), opts=opts)
            for k in {max(n - 1, 2), n + 1}:
                if k != n and k >= 2:
                    names = ", ".join("u%d" % i for i in range(k))
                    yield Case(pre + "%s := s; [%s]" % (names, names), dict(base, op="unpack_mismatch", k=k), opts=opts)
            if n >= 1:
                yield Case(pre + "h, ...t := s; [h, t]", dict(base, op="unpack_splat"), opts=opts)
            # truthiness through and / or / while
            yield Case(pre + "(s and 5) == 5", dict(base, op="and"), opts=opts)
            # observation histories on one variable
            hl = 2 if tier == "quick" else 3
            # histories: in the quick tier on the short instances of every constructor (ranges: a sub-grid)
            quick_ok = n0 <= 3 and (ctor != "range" or ("by" in src and abs(n0 - 2) <= 1))
            if p in (0, 1) and n0 <= 6 and (tier != "quick" or quick_ok):
                hist_obs = OBS
                if tier != "quick" and hl == 3 and (n0 > 3 or ctor == "range"):
                    hl = 2
                for seq in itertools.product(hist_obs, repeat=hl):
                    if hl == 3 and tier != "quick" and len(set(seq)) == 1:
                        continue
                    steps = ["s := %s" % ssrc, "s"]
                    for o in seq:
                        steps.append(obs_src_hist(o, L))
                        steps.append("s")
                    yield Case(steps, dict(base, op="history", seq=list(seq)), iso=False, opts=opts)
    # infinite streams
    for (name, src, f) in infinite_instances(tier):
        cnt += 1
        if cnt % nshards != shard:
            continue
        for p in range(0, 4):
            ssrc = src if p == 0 else "(%s drop %d)" % (src, p)
            base = {"ctor": name, "src": ssrc, "inf": [f, p], "drop": p}
            pre = "s := %s; " % ssrc
            if name != "iota-mapped":   # len of a lazy map over an infinite stream is not in the property (it never returns)
                yield Case(pre + "len(s)", dict(base, op="inf_len"))
            for k in range(0, 9):
                yield Case(pre + "s take %d" % k, dict(base, op="inf_take", k=k))
                yield Case(pre + "s[%d]" % k, dict(base, op="inf_index", k=k))
                for b in range(0, 6):
                    yield Case(pre + "s[%d:%d]" % (k, b), dict(base, op="inf_slice", a=k, b=b))
                yield Case(pre + "s[%d:] take 3" % k, dict(base, op="inf_slice_open", a=k))
            yield Case(["s := %s" % ssrc, "s take 3", "s[5]", "s take 3", "first(s)", "s take 3"], dict(base, op="inf_history"), iso=False)


def obs_src_hist(o, L):
    if o == "unpack":
        n = max(len(L), 2)
        names = ", ".join("u%d" % i for i in range(n))
        return "(\\-> (%s := s; [%s]))()" % (names, names)   # in a fresh scope so the history can repeat it
    return obs_src(o, L)


def infinite_instances(tier):
    out = []
    for a in (0, 3, -2, 2 ** 63 - 2):
        out.append(("iota", "iota(%s)" % lit_int(a), ["iota", a]))
    for x in (7, 0):
        out.append(("repeat", "repeat(%d)" % x, ["repeat", x]))
    for xs in ([1], [1, 2], [1, 2, 3]):
        out.append(("cycle", "cycle([%s])" % ", ".join(map(str, xs)), ["cycle", xs]))
    out.append(("iterate", "iterate(1, *2)", ["iterate", 1, "mul2"]))
    out.append(("iterate", "iterate(10, \\x -> x - 3)", ["iterate", 10, "sub3"]))
    out.append(("iota-mapped", "(iota(1) lazy_map (*2))", ["iota2"]))
    return out


def inf_elem(f, i):
    if f[0] == "iota":
        return f[1] + i
    if f[0] == "repeat":
        return f[1]
    if f[0] == "cycle":
        return f[1][i % len(f[1])]
    if f[0] == "iterate":
        return f[1] * 2 ** i if f[2] == "mul2" else f[1] - 3 * i
    if f[0] == "iota2":
        return 2 * (1 + i)
    raise KeyError(f)


def render_lit(c):
    if c[0] in ("i", "I"):
        return lit_int(int(c[1]))
    if c[0] == "l":
        return "[%s]" % ", ".join(render_lit(x) for x in c[1])
    if c[0] == "s":
        return '"%s"' % c[1]
    raise KeyError(c)


def nontrivial(case, rs):
    m = case.meta
    return bool(m.get("L")) or "inf" in m


def expect(m):
    op = m["op"]
    if op.startswith("inf"):
        f, p = m["inf"]
        el = lambda i: cI(inf_elem(f, i + p))
        if op == "inf_len":
            return ("exact", INF)
        if op == "inf_take":
            return ("exact", clist([el(i) for i in range(m["k"])]))
        if op == "inf_index":
            return ("exact", el(m["k"]))
        if op == "inf_slice":
            return ("elems", [el(i) for i in range(m["a"], max(m["a"], m["b"]))])
        if op == "inf_slice_open":
            return ("exact", clist([el(m["a"] + i) for i in range(3)]))
        return None
    L = m["L"]
    n = len(L)
    if op in OBS:
        return obs_expected(op, L)
    if op == "index":
        i = m["i"]
        return ("exact", L[i]) if -n <= i < n else RAISE
    if op == "slice":
        return ("elems", L[m["a"]:m["b"]])
    if op == "in":
        return ("exact", cI(1))
    if op == "notin":
        return ("exact", cI(0))
    if op == "notin_other":
        # none of the instances contains a string, null, a list of one int, 1/3 or 1.5 ... except streams of such values
        pr = m["probe"]
        present = {"[1]": any(e == ["l", [cI(1)]] for e in L), '"a"': any(e == ["s", "a"] for e in L)}.get(pr, False)
        return ("exact", cI(int(present)))
    if op == "unpack_mismatch":
        return RAISE
    if op == "unpack_splat":
        return ("exact", clist([L[0], clist(L[1:])]))
    if op == "and":
        return ("exact", cI(int(n > 0)))
    return None


def judge(case, rs):
    m = case.meta
    op = m["op"]
    sig0 = "C11 ctor=%s drop=%s obs=%s" % (m["ctor"], "0" if m["drop"] == 0 else ">0", op)
    src = "; ".join(case.steps)
    if op == "history":
        return judge_history(case, rs, sig0)
    if op == "inf_history":
        f, p = m["inf"]
        want3 = clist([cI(inf_elem(f, i + p)) for i in range(3)])
        out = []
        for idx in (1, 3, 5):
            r = rs[idx] if idx < len(rs) else {"st": "missing"}
            if r.get("st") != "ok" or norm(r.get("v")) != want3:
                out.append(Violation(sig0 + " result=prefix-changed", "%s: step %d gave %s, expected %s" % (src, idx, r.get("v", r.get("e")), want3), want3, r.get("v")))
                break
        return out
    r = rs[0]
    st = r.get("st")
    exp = expect(m)
    if exp is None:
        return []
    if exp == RAISE:
        if st == "ok":
            return [Violation(sig0 + " result=no-error", "%s gave %s; list(s) is %s" % (src, r.get("v"), m["L"]), "raise", r.get("v"))]
        if st in ("panic", "abort", "hang"):
            return [Violation(sig0 + " result=" + st, "%s: %s" % (src, r.get("e")), "raise", st)]
        return []
    if st != "ok":
        return [Violation(sig0 + " result=" + str(st), "%s: expected %s, status %s %s" % (src, exp, st, r.get("e")), exp, st)]
    if not matches(exp, r["v"]):
        return [Violation(sig0 + " result=wrong-value", "%s gave %s, expected %s" % (src, norm(r["v"]), exp), exp, norm(r["v"]))]
    return []


def judge_history(case, rs, sig0):
    m = case.meta
    L = m["L"]
    seq = m["seq"]
    src = "; ".join(case.steps)
    if len(rs) < 2 or rs[0].get("st") != "ok" or rs[1].get("st") != "ok":
        return [Violation(sig0 + " result=setup-failed", "%s: %s" % (src, rs[:2]), None, None)]
    s0 = rs[1]["v"]
    if not matches(("elems", L), s0):
        return [Violation(sig0 + " result=wrong-initial-value", "%s: s is %s, expected elements %s" % (src, s0, L), L, s0)]
    for j, o in enumerate(seq):
        ri = rs[2 + 2 * j] if 2 + 2 * j < len(rs) else {"st": "missing"}
        rsv = rs[3 + 2 * j] if 3 + 2 * j < len(rs) else {"st": "missing"}
        exp = obs_expected(o, L)
        tag = " after=%s" % ("+".join(seq[:j]) if j else "nothing")
        if exp == RAISE:
            if ri.get("st") == "ok":
                return [Violation(sig0 + " obs=%s%s result=no-error" % (o, tag), "%s: step %s gave %s" % (src, o, ri.get("v")), "raise", ri.get("v"))]
            if ri.get("st") in ("panic", "abort", "hang"):
                return [Violation(sig0 + " obs=%s%s result=%s" % (o, tag, ri.get("st")), "%s: %s" % (src, ri.get("e")), "raise", ri.get("st"))]
        else:
            if ri.get("st") != "ok" or not matches(exp, ri.get("v")):
                return [Violation(sig0 + " obs=%s%s result=differs-from-fresh" % (o, tag),
                                  "%s: observation %s gave %s, on a fresh stream it is %s" % (src, o, ri.get("v", ri.get("e")), exp), exp, ri.get("v"))]
        if rsv.get("st") != "ok" or rsv.get("v") != s0:
            return [Violation(sig0 + " obs=%s%s result=variable-changed" % (o, tag),
                              "%s: after %s the variable is %s, before it was %s" % (src, o, rsv.get("v", rsv.get("e")), s0), s0, rsv.get("v"))]
    return []
