"""C02 - mutating an unshared collection is in place: no hidden copies.

(a) Explicit-state search over histories that interleave in-place-eligible mutation statements
    (index / key / field assignment at depth 1-2, op-assignment, append, pop, remove-at-end,
    every-slice) with sharing operations (b = a, b = m[1], c = [a, m], b = null ...) on LARGE payloads
    (2048..4096 elements per list / row / dict / vector / bytes / string / struct field).
    Per-transition invariant, measured by the engine's counting allocator: the number of fresh
    allocations of at least THRESH bytes made by the statement is at most the number of payloads
    a copy-on-write heap must copy, i.e. the payloads on the mutation path at or below the first
    one that is shared in the pre-state (strong count > 1; read from the live heap, never cloned).
    An unshared target therefore allows zero payload-sized allocations. `realloc` growth of an
    amortised push is counted separately and never treated as a copy.
(b) Scaling family (thorough, and a reduced set in quick): loop workloads of k mutations on n
    elements - unaliased, aliased once before the loop, re-aliased every n/4 iterations - at
    n in {N, 2N, 4N}: total bytes allocated must grow linearly (ratio per doubling < 3), a hidden
    copy per iteration shows as a ratio of 4.
"""
import json

from ..core import Case, Violation

PROP = "C02"
LEVEL = "model_checking"
SEARCH = True
TECHNIQUE = "explicit-state BFS over mutation/sharing histories on the real interpreter with a per-transition allocation invariant from a counting global allocator and a copy-on-write heap model; plus an exhaustive scaling grid"
RULE = ("search: every statement of the menu in every reached state up to the depth bound; non-trivial = a mutation statement (not a sharing operation) that "
        "completed. scaling: every (loop form, aliasing pattern) at three sizes")
SEARCH_NOTE = ("states are merged on the engine's abbreviated shape dump (payload identity, strong counts, content hash); every transition's allocation count is "
               "compared with the copy-on-write model")
ASSUMPTIONS = ["an allocation of >= 2048 bytes during one statement is a payload copy (statement temporaries are far smaller; payloads are >= 4096 bytes)",
               "the implementation doing fewer copies than the model is accepted", "asymptotics beyond 4N are outside the bound"]
THRESH = 2048
N = 2048

PRE = [
    "struct Foo (fld, num)",
    "a := list(1 to %d)" % N,
    "m := [list(1 to %d), list(1 to %d), list(1 to %d)]" % (N, N, N),
    "d := dict((1 to %d) map (\\i -> [i, i]))" % N,
    "v := vector(list(1 to %d))" % N,
    "y := bytes((1 to %d) map (%% 256))" % (2 * N),
    's := "x" $* %d' % (2 * N),
    "q := Foo(list(1 to %d), 0)" % N,
    "t: list = list(1 to %d)" % N,          # an annotated variable: op-assignment must still empty it while the operator runs
    "e := {:[]}", "e[1] = list(1 to %d)" % N,   # a dict WITH a default whose entry is a payload: `e[1] f= v` must empty the entry while f runs
    "g := {1: list(1 to %d), 2: [5]}" % N,      # the same without a default
    "w := [1, 2, 3]", "w2 := V(1, 2)", "w3 := B[1, 2]",    # small right operands held by a variable (shared when the builtin sees them)
    "b := null", "c := null",
]
VARS = ["a", "b", "c", "d", "e", "g", "m", "q", "s", "t", "v", "y"]

# (source, kind, var, path-to-mutated-container)   kind: "mut" or "share"
MENU = [
    ("a[5] = 7", "mut", "a", []), ("a[6] += 1", "mut", "a", []), ("a append= 1", "mut", "a", []), ("pop a", "mut", "a", []),
    ("remove a[-1]", "mut", "a", []), ("every a[0:4] = 0", "mut", "a", []), ("a[-1] max= 3", "mut", "a", []),
    ("m[1][2] = 7", "mut", "m", [1]), ("m[1] append= 5", "mut", "m", [1]), ("m[0][3] += 1", "mut", "m", [0]), ("pop m[1]", "mut", "m", [1]),
    ("m[2] = 0", "mut", "m", []),
    ("d[5] = 7", "mut", "d", []), ("d[5] += 1", "mut", "d", []),
    ("v[3] = 7", "mut", "v", []), ("y[3] = 7", "mut", "y", []), ('s[3] = "z"', "mut", "s", []),
    ("q[fld] append= 5", "mut", "q", ["f0"]), ("q[fld][2] = 9", "mut", "q", ["f0"]), ("q[num] = 3", "mut", "q", None),
    # the same field through the symbol-access spelling
    ("q::fld append= 5", "mut", "q", ["f0"]), ("q::fld ++= [1]", "mut", "q", ["f0"]), ("q::fld[2] = 9", "mut", "q", ["f0"]), ("q::fld[3] += 1", "mut", "q", ["f0"]),
    ("pop q::fld", "mut", "q", ["f0"]),
    # the right operand is held by a variable: the LEFT operand is still unshared and must be extended in place
    ("a ++= w", "mut", "a", []), ("m[1] ++= w", "mut", "m", [1]), ("q[fld] ++= w", "mut", "q", ["f0"]), ("v ++= w2", "mut", "v", []), ("y ++= w3", "mut", "y", []),
    ("t ++= w", "mut", "t", []), ("e[1] ++= w", "mut", "e", ["k0"]), ("a append= w", "mut", "a", []),
    ("t append= 1", "mut", "t", []), ("t ++= [1]", "mut", "t", []), ("t[5] = 7", "mut", "t", []), ("t[6] += 1", "mut", "t", []),
    ("e[1] append= 5", "mut", "e", ["k0"]), ("e[1] ++= [1]", "mut", "e", ["k0"]), ("e[1][2] = 7", "mut", "e", ["k0"]), ("e[1][3] += 1", "mut", "e", ["k0"]),
    ("pop e[1]", "mut", "e", ["k0"]), ("g[1] append= 5", "mut", "g", ["k0"]), ("g[1][2] = 7", "mut", "g", ["k0"]), ("g[2] append= 1", "mut", "g", ["k1"]),
    # the dict / set operators named in the property, swaps and tuple assignments into indexed targets (two index-assignments each)
    ("d |.= 7", "mut", "d", []), ("d |..= [8, 9]", "mut", "d", []), ("d -.= 5", "mut", "d", []), ("d ||= {7: 7}", "mut", "d", []), ("remove d[5]", "mut", "d", []),
    # remove at the end of a NESTED row / field / dict entry (the flat form is above)
    ("remove m[1][-1]", "mut", "m", [1]), ("remove q[fld][-1]", "mut", "q", ["f0"]), ("remove q::fld[-1]", "mut", "q", ["f0"]), ("remove e[1][-1]", "mut", "e", ["k0"]),
    ("remove g[1][-1]", "mut", "g", ["k0"]),
    # dict merge that concatenates the rows of common keys: the row is extended in place
    ("g ||++= {1: [5]}", "mut", "g", ["k0"]), ("e ||++= {1: [5]}", "mut", "e", ["k0"]), ("g ||++= {2: [5], 3: [6]}", "mut", "g", ["k1"]),
    ("swap a[0], a[1]", "mut", "a", []), ("swap m[1][0], m[1][1]", "mut", "m", [1]), ("a[0], a[1] = 1, 2", "mut", "a", []),
    ("b[0] = 1", "mut", "b", []), ("b[1][1] = 1", "mut", "b", [1]), ("c[0][0] = 1", "mut", "c", [0]), ("b[fld][0] = 1", "mut", "b", ["f0"]),
    ("b = a", "share", None, None), ("b = m", "share", None, None), ("b = m[1]", "share", None, None), ("b = d", "share", None, None),
    ("b = q", "share", None, None), ("b = v", "share", None, None), ("b = y", "share", None, None), ("b = s", "share", None, None),
    ("b = t", "share", None, None), ("b = e", "share", None, None), ("b = e[1]", "share", None, None), ("c = g[1]", "share", None, None), ("b = null", "share", None, None), ("c = [a, m]", "share", None, None), ("c = null", "share", None, None), ("c = m[1]", "share", None, None),
]


def starts(tier):
    return ["big"]


# statements whose kind is also exercised by a scaling loop (both tiers): in the quick tier they are left out of the search menu
QUICK_SEARCH_SKIP = {"remove q::fld[-1]", "remove e[1][-1]", "remove g[1][-1]", "remove q[fld][-1]", "d |..= [8, 9]", "d -.= 5", "d ||= {7: 7}",
                     "swap m[1][0], m[1][1]", "a[0], a[1] = 1, 2", "e ||++= {1: [5]}", "g ||++= {2: [5], 3: [6]}", "q::fld ++= [1]", "q::fld[3] += 1",
                     "v ++= w2", "y ++= w3", "t ++= w", "e[1] ++= w", "a append= w", "t ++= [1]", "t[6] += 1", "e[1][3] += 1", "g[2] append= 1"}


def alphabet(tier, start):
    if tier == "quick":
        return [i for i, st in enumerate(MENU) if st[0] not in QUICK_SEARCH_SKIP]
    return list(range(len(MENU)))


def depth(tier):
    return 2 if tier == "quick" else 3


def crosscheck_depth(tier):
    return 0


def make_case(tier, start, hist):
    steps = ["null"] + [MENU[i][0] for i in hist]    # step 0 only dumps the start state
    return Case(steps, {"kind": "hist", "hist": hist}, pre=PRE, iso=False,
                opts={"dump": VARS, "shape": True, "abbrev": 16, "alloc_thresh": THRESH, "cap": 4})


def index_shapes(dump):
    """id -> (count, inner) for every annotated payload of a shape dump"""
    table = {}

    def walk(v):
        if isinstance(v, list):
            if v and v[0] == "#":
                table[v[1]] = (v[2], v[3])
                walk(v[3])
            elif v and v[0] == "@":
                return
            else:
                for x in v:
                    walk(x)
    for k in VARS:
        walk(dump.get(k))
    return table


def payload_counts(dump, var, path):
    """strong counts of the Rc payloads from the variable's value down to the mutated container.
    Returns None when the path cannot be followed (statement will be rejected by the interpreter)."""
    table = index_shapes(dump)
    v = dump.get(var)
    counts = []

    def open_(v):
        if isinstance(v, list) and v and v[0] == "@":
            c, inner = table[v[1]]
            counts.append(c)
            return inner
        if isinstance(v, list) and v and v[0] == "#":
            counts.append(v[2])
            return v[3]
        return v
    v = open_(v)
    for p in path:
        if not isinstance(v, list) or not v:
            return None
        if p == "f0":
            if v[0] != "o":
                return None
            v = v[2][0]
        elif isinstance(p, str) and p[0] == "k":
            j = int(p[1:])
            if v[0] != "d" or not isinstance(v[1], list) or j >= len(v[1]):
                return None
            v = v[1][j][1]
        else:
            if v[0] != "l" or v[1] == "..." or not isinstance(v[1], list) or p >= len(v[1]):
                return None
            v = v[1][p]
        v = open_(v)
    return counts


def allowed_copies(counts):
    for i, c in enumerate(counts):
        if c > 1:
            return len(counts) - i
    return 0


def extends(case, rs):
    n = len(case.meta["hist"])
    return len(rs) == n + 1 and rs[n].get("st") == "ok"


def state_key(case, rs):
    n = len(case.meta["hist"])
    return json.dumps(rs[n]["d"], sort_keys=True)


def judge(case, rs):
    m = case.meta
    if m["kind"] != "hist":
        return judge_scale(case, rs)
    hist = m["hist"]
    n = len(hist)
    if len(rs) < n + 1:
        return []
    src, kind_, var, path = MENU[hist[-1]]
    r = rs[n]
    pre = rs[n - 1]
    trail = "; ".join(MENU[i][0] for i in hist)
    sig = "C02 stmt=`%s`" % src
    if r.get("st") in ("panic", "abort", "hang"):
        return [Violation(sig + " result=" + r["st"], "%s -> %s %s" % (trail, r["st"], r.get("e")), "ok", r["st"])]
    if r.get("st") != "ok" or kind_ != "mut":
        return []
    big = r["a"][0]
    if path is None:
        allowed = 0
        counts = []
    else:
        counts = payload_counts(pre["d"], var, path)
        if counts is None:
            return []
        allowed = allowed_copies(counts)
    if big > allowed:
        shared = "shared" if allowed else "unshared"
        return [Violation(sig + " target=%s result=hidden-copy" % shared,
                          "%s: the last statement made %d allocation(s) >= %d bytes (%d bytes); the payloads on its path have strong counts %s, "
                          "so a copy-on-write heap copies at most %d" % (trail, big, THRESH, r["a"][1], counts, allowed), allowed, big)]
    return []


def tally(case, rs, extra):
    m = case.meta
    if m["kind"] != "hist":
        return
    n = len(m["hist"])
    if len(rs) == n + 1 and rs[n].get("st") == "ok" and MENU[m["hist"][-1]][1] == "mut":
        extra["mutations_checked"] += 1
        if rs[n]["a"][0] == 0:
            extra["mutations_with_zero_payload_allocs"] += 1
        else:
            extra["mutations_with_justified_copies"] += 1
        if rs[n]["a"][2]:
            extra["mutations_with_realloc_growth"] += 1


# ---------------------------------------------------------------- (b) scaling
LOOPS = [
    ("list-append", "x := list(1 to {n})", "for (i <- 1 to {k}) x append= i"),
    ("list-index-op", "x := list(1 to {n})", "for (i <- 0 til {k}) x[i % {n}] += 1"),
    ("list-index-set", "x := list(1 to {n})", "for (i <- 0 til {k}) x[i % {n}] = i"),
    ("list-pop", "x := list(1 to {n})", "for (i <- 1 to {k}) pop x"),
    ("list-remove-end", "x := list(1 to {n})", "for (i <- 1 to {k}) remove x[-1]"),
    ("list-concat", "x := list(1 to {n})", "for (i <- 1 to {k}) x ++= [i]"),
    ("list-concat-var", "x := list(1 to {n}); w := [0, 0]", "for (i <- 1 to {k}) x ++= w"),
    # interleaved growth and shrinkage around the size the list was born with / grown to (capacity handling must be amortised)
    ("append-pop-rounds", "x := list(1 to {n})", "for (i <- 1 to {k}) (x append= i; pop x)"),
    ("pop-append-rounds", "x := list(1 to {n})", "for (i <- 1 to {k}) (pop x; x append= i)"),
    ("append-pop-rounds-replicated", "x := 0 .* {n}", "for (i <- 1 to {k}) (x append= i; pop x)"),
    ("grown-pop-append-rounds", "x := []; for (i <- 0 to {n}) x append= i", "for (i <- 1 to {k}) (pop x; x append= i)"),
    ("grown-pop2-append2-rounds", "x := []; for (i <- 0 to {n}) x append= i", "for (i <- 1 to {k}) (pop x; pop x; x append= i; x append= i)"),
    # the collection itself is the condition of the construct whose body mutates it (the condition's value must not stay alive)
    ("while-cond-pop", "x := list(1 to {n})", "while (x) pop x"),
    ("while-cond-remove", "x := list(1 to {n})", "while (x) remove x[-1]"),
    ("while-cond-row", "x := [0, list(1 to {n})]", "while (x[1]) pop x[1]"),
    ("if-cond-append", "x := list(1 to {n})", "for (i <- 1 to {k}) if (x) x append= i"),
    ("and-cond-append", "x := list(1 to {n})", "for (i <- 1 to {k}) (x and (x append= i))"),
    ("switch-scrutinee", "x := list(1 to {n})", "for (i <- 1 to {k}) switch (x) case _ -> (x append= i)"),
    ("for-iteratee-other", "x := list(1 to {n}); w := list(1 to {n})", "for (i <- w) x append= i"),
    ("vector-concat-var", "x := vector(list(1 to {n})); w := V(0, 0)", "for (i <- 1 to {k}) x ++= w"),
    ("bytes-concat-var", "x := bytes((1 to {n}) map (% 256)); w := B[0, 0]", "for (i <- 1 to {k}) x ++= w"),
    ("dict-op", "x := dict((0 til {n}) map (\\i -> [i, i]))", "for (i <- 0 til {k}) x[i % {n}] += 1"),
    ("dict-set", "x := dict((0 til {n}) map (\\i -> [i, i]))", "for (i <- 0 til {k}) x[i % {n}] = i"),
    ("dict-add-key", "x := {{}}", "for (i <- 0 til {k}) x |.= i"),
    ("dict-add-key-grown", "x := dict((0 til {n}) map (\\i -> [i, i]))", "for (i <- 0 til {k}) x |.= {n} + i"),
    ("dict-add-pair", "x := dict((0 til {n}) map (\\i -> [i, i]))", "for (i <- 0 til {k}) x |..= [{n} + i, i]"),
    ("dict-merge-small", "x := dict((0 til {n}) map (\\i -> [i, i]))", "for (i <- 0 til {k}) x ||= {{i: 0}}"),
    ("dict-remove-key", "x := dict((0 til {n}) map (\\i -> [i, i]))", "for (i <- 0 til {k}) x -.= i"),
    ("list-swap", "x := list(1 to {n})", "for (i <- 0 til {k}) swap x[0], x[i % {n}]"),
    ("list-tuple-assign", "x := list(1 to {n})", "for (i <- 0 til {k}) x[0], x[i % {n}] = i, i"),
    ("rows", "x := (1 to 8) map (\\r -> list(1 to {n}))", "for (i <- 0 til {k}) x[i % 8][i % {n}] = i"),
    ("row-append", "x := [[], list(1 to {n})]", "for (i <- 0 til {k}) x[1] append= i"),
    ("row-remove-end", "x := [[], list(1 to {n})]", "for (i <- 1 to {k}) remove x[1][-1]"),
    ("row-pop", "x := [[], list(1 to {n})]", "for (i <- 1 to {k}) pop x[1]"),
    ("struct-field-remove-end", "struct Foo (fld, num); x := Foo(list(1 to {n}), 0)", "for (i <- 1 to {k}) remove x[fld][-1]"),
    ("dict-merge-concat", "x := {{0: list(1 to {n}), 1: []}}", "for (i <- 1 to {k}) x ||++= {{0: [i]}}"),
    ("dict-merge-concat-two", "x := {{0: list(1 to {n}), 1: list(1 to {n})}}", "for (i <- 1 to {k}) x ||++= {{(i % 2): [i]}}"),
    ("dict-merge-add", "x := dict((0 til {n}) map (\\i -> [i, i]))", "for (i <- 0 til {k}) x ||+= {{(i % {n}): 1}}"),
    ("dict-entry-remove-end", "x := {{1: list(1 to {n})}}", "for (i <- 1 to {k}) remove x[1][-1]"),
    ("vector", "x := vector(list(1 to {n}))", "for (i <- 0 til {k}) x[i % {n}] = i"),
    ("bytes", "x := bytes((1 to {n}) map (% 256))", "for (i <- 0 til {k}) x[i % {n}] = i % 256"),
    ("struct-field-append", "struct Foo (fld, num); x := Foo(list(1 to {n}), 0)", "for (i <- 0 til {k}) x[fld] append= i"),
    ("struct-field-index", "struct Foo (fld, num); x := Foo(list(1 to {n}), 0)", "for (i <- 0 til {k}) x[fld][i % {n}] = i"),
    ("struct-symbol-append", "struct Foo (fld, num); x := Foo(list(1 to {n}), 0)", "for (i <- 0 til {k}) x::fld append= i"),
    ("struct-symbol-index-op", "struct Foo (fld, num); x := Foo(list(1 to {n}), 0)", "for (i <- 0 til {k}) x::fld[i % {n}] += 1"),
    ("struct-in-list-symbol", "struct Foo (fld, num); x := [0, Foo(list(1 to {n}), 0)]", "for (i <- 0 til {k}) x[1]::fld append= i"),
    ("dict-of-lists", "x := {{:[]}}; x[1] = list(1 to {n})", "for (i <- 0 til {k}) x[1] append= i"),
    ("string-index", 'x := "ab" $* ({n} // 2)', 'for (i <- 0 til {k}) x[i % {n}] = "z"'),
    ("typed-list-append", "x: list = list(1 to {n})", "for (i <- 1 to {k}) x append= i"),
    ("typed-list-concat", "x: list = list(1 to {n})", "for (i <- 1 to {k}) x ++= [i]"),
    ("typed-dict-op", "x: dict = dict((0 til {n}) map (\\i -> [i, i]))", "for (i <- 0 til {k}) x[i % {n}] += 1"),
    ("typed-param-accumulator", "x := list(1 to {n}); f := \\acc: list, j -> (acc append= j; acc)", "for (i <- 1 to {k}) x = f(consume x, i)"),
]
ALIASING = [("unaliased", "", "{body}"), ("aliased-once", "; z := x", "{body}"),
            ("realiased", "; z := null", None)]


def loop_src(body, n, k, alias):
    name, setup_extra, tmpl = alias
    b = body.format(n=n, k=k)
    if name == "realiased":
        # re-take an alias every n/4 iterations: at most k/(n/4) extra copies of n elements
        head, _, stmt = b.partition(") ")
        b = "%s) (if (i %% %d == 0) z = x; %s)" % (head, max(n // 4, 1), stmt)
    return b


def cases(tier):
    base = 1000 if tier != "quick" else 500      # three sizes base, 2*base, 4*base: growth per doubling is what is judged
    loops = LOOPS
    for (lname, setup, body) in loops:
        for alias in ALIASING:
            if alias[0] == "realiased" and ("pop" in lname or "remove" in lname or lname.startswith("while") or "iteratee" in lname):
                continue
            steps, ns = [], []
            for mult in (1, 2, 4):
                n = base * mult
                k = n
                steps.append("%s%s; null" % (setup.format(n=n, k=k), alias[1]))   # setup measured separately
                steps.append("%s%s; %s; null" % (setup.format(n=n, k=k), alias[1], loop_src(body, n, k, alias)))
                ns.append(n)
            yield Case(steps, {"kind": "scale", "loop": lname, "alias": alias[0], "ns": ns}, iso=True,
                       opts={"alloc_thresh": 1 << 40, "fuel": 10_000_000, "step_ms": 20000, "compact": True})


def judge_scale(case, rs):
    m = case.meta
    if any(r.get("st") != "ok" for r in rs):
        bad = [(s, r.get("st"), r.get("e")) for s, r in zip(case.steps, rs) if r.get("st") != "ok"][0]
        if bad[1] in ("panic", "abort", "hang"):
            return [Violation("C02 scale loop=%s alias=%s result=%s" % (m["loop"], m["alias"], bad[1]), "%s -> %s %s" % bad, "ok", bad[1])]
        return [Violation("C02 scale loop=%s alias=%s result=harness-%s" % (m["loop"], m["alias"], bad[1]), "%s -> %s %s" % bad, "ok", bad[1])]
    work = []
    for j in range(3):
        setup_bytes = rs[2 * j]["a"][3]
        total = rs[2 * j + 1]["a"][3]
        work.append(max(total - setup_bytes, 1))
    r1, r2 = work[1] / work[0], work[2] / work[1]
    if r1 >= 3.0 or r2 >= 3.0:
        return [Violation("C02 scale loop=%s alias=%s result=superlinear" % (m["loop"], m["alias"]),
                          "bytes allocated by the loop at n=k=%s: %s (ratios %.2f, %.2f; linear is 2, a copy per iteration is 4)" % (m["ns"], work, r1, r2),
                          "ratio < 3", [r1, r2])]
    return []


def nontrivial(case, rs):
    return True


def bounds(tier):
    return {"search_depth": depth(tier), "payload_elements": N, "big_alloc_threshold_bytes": THRESH, "menu": [m[0] for m in MENU],
            "scaling_loops": [l[0] for l in LOOPS], "search_statements": len(alphabet(tier, None)), "scaling_sizes": [1000, 2000, 4000] if tier != "quick" else [500, 1000, 2000],
            "aliasing_patterns": [a[0] for a in ALIASING]}
