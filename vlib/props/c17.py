"""C17 - freeze preserves meaning and binds free variables eagerly.

Bodies: every program of the C05 core grammar (extended with an unbound name, a second outer name,
operator chains whose operators are outer closures with assigned precedences, negative
literals, list/dict literals, a shadowed builtin, underscore sections, a bare underscore, import)
up to the node bound, plus the C05 feature products, used as the body B of `\\x -> B` over an outer
scope that binds y, z, two operator closures and shadows `max`, and leaves w unbound.
Four runs per (body, argument), all on the real interpreter (translation validation):
  1. (\\x -> B)(arg)                       2. (freeze \\x -> B)(arg)          -> equal value/output/raised
  3. K := freeze \\x -> B; "frozen"        -> raises exactly when the generator's own free-variable
     analysis finds an unbound free variable, an assignment to an outer variable, an import or a
     bare underscore
  4. K := freeze \\x -> B; <reassign every outer name>; K(arg)              -> equal to run 1
"""
import json

from ..canon import norm, resort
from ..core import Case, Violation
from .. import refinterp as R
from . import c05

PROP = "C17"
LEVEL = "translation_validation"
TECHNIQUE = "bounded exhaustive enumeration of lambda bodies x arguments; differential (translation-validation) oracle frozen vs unfrozen on the real interpreter plus a free-variable analysis of the generated AST"
RULE = ("every body up to the node bound and every feature-product body x every argument is run frozen and unfrozen; non-trivial = freeze succeeds "
        "and the body has >= 2 nodes; distinct by program text")
ASSUMPTIONS = ["run 4 (eager binding) is not compared for bodies that declare an outer-bound name inside if / and / or / coalesce / try (whether that declaration runs, and so local-vs-outer, is decided at run time there)",
               "function values are compared as opaque"]
SHARDED = True
OPTS = {"fuel": 6000, "depth": 60, "compact": True, "step_ms": 2000, "cap": 16}

OUTER = 'y := 10; z := [1, 2]; f1 := \\a, b -> ["f1", a, b]; f2 := \\a, b -> ["f2", a, b]; f1::precedence = 2; f2::precedence = 3; max := \\a, b -> 99; mn := (-9223372036854775807) - 1; '
REASSIGN = 'y = 77; z = [7]; f1, f2 = f2, f1; f1::precedence = 9; max = \\a, b -> 11; mn = 3; '
OUTER_NAMES = {"y", "z", "f1", "f2", "max", "mn"}
BUILTIN_NAMES = set(R.BUILTINS) | {"print", "len"}
ARGS = [("int", 1), ("list", [("int", 0), ("int", 2)])]

I = c05.I
V = c05.V
ATOMS = [I(0), I(1), I(-1), V("x"), V("y"), V("z"), V("w"), ("null",), ("break", 0, None), ("return", None), ("raw", "_"), ("raw", "[1, -2]"),
         ("raw", "(pop z)"), ("raw", "(swap z[0], z[1])"), ("raw", "(remove z[0])"),
         # constant folding of unary minus at the machine-word boundary (a folded literal, an outer variable resolved at freeze time)
         ("raw", "(-mn)"), ("raw", "(-(-9223372036854775808))"), ("raw", "[x, -(-9223372036854775807)]"),
         ("raw", "{1: y}"), ("raw", "(1 f1 2 f2 3)"), ("raw", "max(1, 2)"), ("raw", "(_ + 1)(x)"), ("raw", "(y - 1)"), ("raw", "(-y)")]


def unary(e):
    yield from c05.unary(e)
    yield ("set", "y", e)
    yield ("decl", "z", e)
    yield ("decl", "max", e)
    yield ("raw1", "(import %s)", e)
    yield ("raw1", "(y f1 %s f2 z)", e)
    yield ("raw1", "(freeze %s)", e)
    # assignments THROUGH an index / slice to an outer variable (freeze must refuse them like bare assignments)
    yield ("raw1", "(z[0] = %s)", e)
    yield ("raw1", "(z[0] += %s)", e)
    yield ("raw1", "(every z[0:1] = %s)", e)


_memo = {}


def bodies(n):
    if n in _memo:
        return _memo[n]
    if n == 1:
        out = list(ATOMS)
    else:
        out = []
        for e in bodies(n - 1):
            out.extend(unary(e))
        for k in range(1, n - 1):
            for a in bodies(k):
                for b in bodies(n - 1 - k):
                    out.extend(c05.binary(a, b))
        if n >= 4:
            small = bodies(1)
            for a in small:
                for b in small:
                    for c in small:
                        out.append(("if", a, b, c))
    _memo[n] = out
    return out


_orig_render = R.render


def render(e):
    """refinterp.render extended with the raw source fragments used only here"""
    if e[0] == "raw":
        return e[1]
    if e[0] == "raw1":
        return e[1] % render(e[2])
    if e[0] == "switchx":
        return "(switch (%s) %s)" % (render(e[1]), " ".join("case %s -> %s" % (a[0], render(a[2])) for a in e[2]))
    return _orig_render(e)


R.render = render       # refinterp.render recurses through its module global, so children may be raw nodes


# ---------------------------------------------------------------- free-variable analysis (mirrors the documented freeze rules)
class Fail(Exception):
    pass


RAW_INFO = {
    "(-mn)": ("ok", {"mn"}, set()), "(-(-9223372036854775808))": ("ok", set(), set()), "[x, -(-9223372036854775807)]": ("ok", {"x"}, set()),
    "(pop z)": ("mutates", "z"), "(swap z[0], z[1])": ("mutates", "z"), "(remove z[0])": ("mutates", "z"),
    "_": ("fail",), "[1, -2]": ("ok", set(), set()), "{1: y}": ("ok", {"y"}, set()), "(1 f1 2 f2 3)": ("ok", {"f1", "f2"}, set()),
    "max(1, 2)": ("ok", {"max"}, set()), "(_ + 1)(x)": ("ok", {"x"}, set()), "(y - 1)": ("ok", {"y"}, set()), "(-y)": ("ok", {"y"}, set()),
}
# one fragment per expression kind of the implementation (Expr variants of src/core.rs) that the node grammar does not build:
# format strings, update expressions, splats, slices, dict defaults, annotations on declarations / parameters / catch patterns,
# destructuring declarations, struct definitions, symbol access, `literally` patterns, consume; each also with the unbound name w
VARIANT_RAWS = {
    'F"{y} {x}"': ("ok", {"y", "x"}, set()), 'F"{w}"': ("refuse",), 'F"{y + 1 #x}"': ("ok", {"y"}, set()),
    "z{0 = y}": ("ok", {"z", "y"}, set()), "z{0 = w}": ("refuse",), "[...z, z[0:y], z[y - 10]]": ("ok", {"z", "y"}, set()), "[...w]": ("refuse",), "z[w:]": ("refuse",),
    "{:y}": ("ok", {"y"}, set()), "{:w}": ("refuse",), "{y: z, 1: x}": ("ok", {"y", "z", "x"}, set()),
    "(q9: int = y; q9)": ("ok", {"y"}, set()), "(q9: w = 1)": ("refuse",), "(q9, r9 := z; q9 + y)": ("ok", {"z", "y"}, set()), "(q9, r9 := w)": ("refuse",),
    "(\\a9: int -> a9 + y)(x)": ("ok", {"y", "x"}, set()), "(\\a9: w -> a9)": ("refuse",), "(\\a9, ...b9 -> [a9, b9, y])(x, 1)": ("ok", {"y", "x"}, set()),
    "(try throw y catch q9: int -> q9 + y)": ("ok", {"y"}, set()), "(try throw 1 catch q9: w -> 0)": ("refuse",),
    "(struct S9 (a9, b9); S9(y, x))": ("ok", {"y", "x"}, set()), "z::len": ("ok", {"z"}, set()), "w::len": ("refuse",),
    "(switch (x) case (literally y) -> 1 case _ -> y)": ("ok", {"x", "y"}, set()), "(switch (x) case (literally w) -> 1 case _ -> 2)": ("refuse",),
    "(switch (x) case q9: int -> q9 + y case _ -> 0)": ("ok", {"x", "y"}, set()),
    "(consume z)": ("mutates", "z"), "(y max= 3)": ("mutates", "y"), "(z[0] max= y)": ("mutates", "z"), "(y, x = 1, 2)": ("mutates", "y"),
    "(z2 := z; consume z2)": ("ok", {"z"}, set()), "(1 < y <= 20)": ("ok", {"y"}, set()), "(y max x min 3)": ("ok", {"y", "x"}, set()),
    # sequences that end in `;` evaluate to null - alone, last in an enclosing sequence, first in it, nested twice
    "(y;)": ("ok", {"y"}, set()), "(x; (y;))": ("ok", {"x", "y"}, set()), "((y;); x)": ("ok", {"x", "y"}, set()), "(x; (y; (x;)))": ("ok", {"x", "y"}, set()),
    "(q9 := x; (q9;))": ("ok", {"x"}, set()), "((y;) coalesce x)": ("ok", {"x", "y"}, set()), "[(x; y;), (x; y)]": ("ok", {"x", "y"}, set()),
    "(x; (y); (z;); x;)": ("ok", {"x", "y", "z"}, set()),
    "(x . (+ y))": ("ok", {"x", "y"}, set()), "(x then (* y))": ("ok", {"x", "y"}, set()), "(\\...r9 -> [r9, y])(x)": ("ok", {"y", "x"}, set()),
}
RAW_INFO.update(VARIANT_RAWS)


def analyse(e, bound, info):
    """walks like freeze does; raises Fail when freeze must refuse; records reads of outer names and local declarations"""
    t = e[0]
    section_position = info.pop("underscore_ok", False)
    if t == "raw":
        r = RAW_INFO[e[1]]
        if r[0] == "mutates":
            if not is_bound(bound, r[1]):
                raise Fail()      # pop / remove / swap assign to the variable they name
            return
        if r[0] == "refuse":
            raise Fail()
        if r[0] == "fail":
            if section_position:
                return        # an underscore as chain operand / call callee or argument / list element makes a section
            raise Fail()
        for n in r[1]:
            read(n, bound, info)
        return
    if t == "raw1":
        if "import" in e[1]:
            raise Fail()
        if e[1].startswith("(z[") or e[1].startswith("(every z["):
            # as for a bare assignment the target is looked at first: an outer z cannot be assigned through an index
            if not is_bound(bound, "z"):
                raise Fail()
            analyse(e[2], bound, info)
            return
        for n in ("y", "f1", "f2", "z"):
            if n in e[1].replace("%s", ""):
                read(n, bound, info)
        if " f1 " in e[1]:
            info["underscore_ok"] = True      # operand of a chain: an underscore there makes a section
        analyse(e[2], bound, info)
        return
    if t in ("int", "null", "str"):
        return
    if t == "var":
        read(e[1], bound, info)
        return
    if t == "switch":
        analyse(e[1], bound, info)
        for (pat, body) in e[2]:
            names = [pat[1]] if pat[0] == "pname" else (list(pat[1]) if pat[0] in ("plist", "plistl") else [])
            b2 = set(bound)
            for nm in names:
                bind(b2, nm)
            analyse(body, b2, info)
        return
    if t == "switchx":
        analyse(e[1], bound, info)
        for (psrc, names, body) in e[2]:
            b2 = set(bound)                    # a pattern's names exist in its own arm only
            for nm in names:
                bind(b2, nm)
            analyse(body, b2, info)
        return
    if t == "list":
        for x in e[1]:
            info["underscore_ok"] = True
            analyse(x, bound, info)
        return
    if t == "bin":
        info["underscore_ok"] = True
        analyse(e[2], bound, info)
        info["underscore_ok"] = True
        analyse(e[3], bound, info)
        return
    if t == "decl":
        # the right-hand side runs before the name exists: there (outside nested lambdas, which run later) the name still
        # means the outer variable - "~name" marks a name that is declared but does not exist yet
        fresh = not is_bound(bound, e[1])
        bind(bound, e[1])
        info["declared"].add(e[1])
        if info.get("cond", 0) > 0:
            info["cond_declared"].add(e[1])     # whether this declaration runs is decided at run time
        if fresh:
            bound.add("~" + e[1])
        analyse(e[2], bound, info)
        bound.discard("~" + e[1])
        return
    if t == "set":
        if not is_bound(bound, e[1]):
            raise Fail()
        analyse(e[2], bound, info)
        return
    if t == "opset":
        if not is_bound(bound, e[1]):
            raise Fail()
        analyse(e[3], bound, info)
        return
    if t == "seq":
        for x in e[1]:
            analyse(x, bound, info)
        return
    if t == "if":
        analyse(e[1], bound, info)
        info["cond"] = info.get("cond", 0) + 1
        try:
            analyse(e[2], bound, info)
            if e[3] is not None:
                analyse(e[3], bound, info)
        finally:
            info["cond"] -= 1
        return
    if t == "while":
        b2 = set(bound)
        analyse(e[1], b2, info)
        analyse(e[2], b2, info)
        return
    if t == "for":
        b2 = set(bound)
        for c in e[1]:
            # the iteratee is evaluated before the clause's names exist
            if c[0] == "each":
                analyse(c[2], b2, info)
                bind(b2, c[1])
            elif c[0] == "item":
                analyse(c[3], b2, info)
                bind(b2, c[1])
                bind(b2, c[2])
            elif c[0] == "let":
                analyse(c[2], b2, info)
                bind(b2, c[1])
                info["declared"].add(c[1])
            else:
                analyse(c[1], b2, info)
        body = e[2]
        for x in body[1:]:
            if x is not None:
                analyse(x, b2, info)
        return
    if t == "break":
        if e[2] is not None:
            analyse(e[2], bound, info)
        return
    if t == "continue":
        return
    if t == "return":
        if e[1] is not None:
            analyse(e[1], bound, info)
        return
    if t == "throw":
        analyse(e[1], bound, info)
        return
    if t == "try":
        info["cond"] = info.get("cond", 0) + 1      # a try body may stop anywhere; the handler runs only if it did
        try:
            analyse(e[1], bound, info)
        finally:
            info["cond"] -= 1
        b2 = set(bound)
        if isinstance(e[2], (tuple, list)):
            # a refutable catch pattern (C05's catchpat family) binds the names it lists
            pat = e[2]
            for n_ in (pat[1] if pat[0] in ("plist", "plistl") else [pat[1]] if pat[0] == "pname" else []):
                bind(b2, n_)
        elif e[2] != "_":
            bind(b2, e[2])
        analyse(e[3], b2, info)
        return
    if t in ("and", "or", "coalesce"):
        analyse(e[1], bound, info)
        info["cond"] = info.get("cond", 0) + 1
        try:
            analyse(e[2], bound, info)
        finally:
            info["cond"] -= 1
        return
    if t == "lambda":
        # defaults are evaluated before any parameter is bound: they see the enclosing scope only
        for p in e[1]:
            if p[0] == "pd":
                analyse(p[2], set(bound), info)
        b2 = {n for n in bound if not n.startswith("~")}     # the body runs later, when pending declarations exist
        for p in e[1]:
            bind(b2, p[1])
        analyse(e[2], b2, info)
        return
    if t == "call":
        info["underscore_ok"] = True
        analyse(e[1], bound, info)
        for a in e[2]:
            info["underscore_ok"] = True
            analyse(a, bound, info)
        return
    if t == "print":
        info["underscore_ok"] = True
        analyse(e[1], bound, info)
        return
    if t == "eval":
        info["eval"] = True
        return
    raise KeyError(t)


def bind(bound, n):
    bound.add(n)
    bound.discard("~" + n)


def is_bound(bound, n):
    return n in bound and ("~" + n) not in bound


def read(n, bound, info):
    if is_bound(bound, n):
        return
    if n in OUTER_NAMES:
        info["reads_outer"].add(n)
        return
    if n in BUILTIN_NAMES:
        return
    raise Fail()


def freeze_must_fail(body):
    info = {"declared": set(), "cond_declared": set(), "reads_outer": set(), "eval": False}
    try:
        analyse(body, {"x"}, info)
        return False, info
    except Fail:
        return True, info


def mentions(e, name):
    if isinstance(e, str):
        return False
    if isinstance(e, (tuple, list)):
        if e and e[0] == "var" and len(e) > 1 and e[1] == name:
            return True
        if e and e[0] in ("raw", "raw1") and isinstance(e[1], str):
            import re as _re
            if _re.search(r"(?<![A-Za-z0-9_])%s(?![A-Za-z0-9_])" % _re.escape(name), e[1]):
                return True
        return any(mentions(x, name) for x in e if isinstance(x, (tuple, list)))
    return False


def calls_lambda_mentioning(e, name):
    if isinstance(e, (tuple, list)):
        if e and e[0] == "call" and isinstance(e[1], (tuple, list)) and e[1] and e[1][0] == "lambda" and mentions(e[1][2], name):
            return True
        return any(calls_lambda_mentioning(x, name) for x in e if isinstance(x, (tuple, list)))
    return False


def has_iife_self(e):
    if isinstance(e, (tuple, list)):
        if e and e[0] == "decl" and calls_lambda_mentioning(e[2], e[1]):
            return True
        return any(has_iife_self(x) for x in e if isinstance(x, (tuple, list)))
    return False


def has_eval(e):
    if isinstance(e, (tuple, list)):
        if e and e[0] == "eval":
            return True
        return any(has_eval(x) for x in e[1:] if isinstance(x, (tuple, list))) if e and isinstance(e[0], str) else any(has_eval(x) for x in e)
    return False


# switch: the property's vocabulary has it, the C05 grammar does not. Patterns bind a fresh name (q), shadow an outer name (y) or
# the parameter (x), or bind nothing; arm bodies read / assign / declare those names, so that a name bound by one arm is free in the others.
SW_SCRUT = [V("x"), ("list", [V("x"), V("y")])]
SW_PATS = [("q", ["q"]), ("[q]", ["q"]), ("y", ["y"]), ("[q, y]", ["q", "y"]), ("1", []), ("_", []), ("[x, _]", ["x"]), ("(q: int)", ["q"])]
SW_BODIES = [V("q"), V("y"), ("bin", "+", V("y"), I(100)), ("list", [V("x"), V("y"), V("z")]), ("set", "y", I(5)), ("seq", [("decl", "q", I(1)), V("q")]),
             ("set", "q", I(5)), ("raw", "(1 f1 2 f2 3)"), ("lambda", [], V("y")), ("call", ("lambda", [], V("q")), [])]


def switch_bodies(tier):
    pats = SW_PATS if tier != "quick" else SW_PATS[:6]
    bods = SW_BODIES if tier != "quick" else SW_BODIES[:7]
    arms = [(p[0], p[1], b) for p in pats for b in bods]
    for sc in SW_SCRUT:
        for a in arms:
            yield ("switchx", sc, [a])
        for a in arms:
            for b in arms:
                yield ("switchx", sc, [a, b])
    if tier != "quick":
        core = [(p[0], p[1], b) for p in SW_PATS[:5] for b in SW_BODIES[:5]]
        for a in core:
            for b in core:
                for c in core:
                    yield ("switchx", SW_SCRUT[1], [a, b, c])
        # a switch nested in a construct that has its own scope, and constructs nested in an arm
        for a in core:
            for b in core:
                sw = ("switchx", V("x"), [a, b])
                yield ("for", [("each", "q", V("z"))], ("yield", sw, None))
                yield ("lambda", [("p", "q")], sw)
                yield ("seq", [("decl", "q", I(7)), sw, V("q")])
                yield ("try", ("throw", V("x")), "q", sw)


# declarations that cross construct boundaries: a name declared in a `try` body is visible in the handler and after the `try`
# (the body has no scope of its own); a catch variable / for variable / lambda parameter is not visible afterwards
def crossing_bodies(tier):
    decls = [("decl", "q", I(5)), ("decl", "y", I(6)), ("decl", "q", V("x")), ("set", "x", I(8)), ("seq", [("decl", "q", I(5)), ("set", "q", V("y"))])]
    ends = [("throw", I(1)), ("throw", V("q")), I(0), V("w")]
    uses = [V("q"), V("y"), ("bin", "+", V("q"), V("e")), ("set", "q", I(9)), ("seq", [("set", "q", I(9)), V("q")]), ("list", [V("q"), V("y"), V("z")]),
            ("lambda", [], V("q")), V("e"), ("decl", "q", I(3))]
    for d in decls:
        for en in ends:
            for u in uses:
                for cv in ("e", "q", "_"):
                    t = ("try", ("seq", [d, en]), cv, u)
                    yield t
                    yield ("seq", [t, V("q")])
                    if tier != "quick":
                        yield ("seq", [t, V("e")])
                        yield ("lambda", [], t)
                        yield ("for", [("each", "i", V("z"))], ("yield", t, None))
    # the same across if / and / while / for bodies and nested lambdas
    for d in decls[:3]:
        for u in uses[:6]:
            yield ("seq", [("if", V("x"), d, None), u])
            yield ("seq", [("and", I(1), d), u])
            yield ("seq", [("for", [("each", "i", V("z"))], ("do", d)), u])
            yield ("seq", [("call", ("lambda", [], d), []), u])
            yield ("seq", [("for", [("let", "q", I(4)), ("each", "i", V("z"))], ("do", u)), u])


# parameter lists of nested lambdas: a default is an expression like any other - its free variables are resolved at freeze
# time, an unbound name in it fails the freeze even when the default is never used
def param_bodies(tier):
    defaults = [V("y"), V("w"), V("x"), I(5), ("bin", "+", V("y"), I(1)), ("call", V("max"), [I(1), I(2)]), ("raw", "(1 f1 2 f2 3)"), ("raw", "(-mn)"),
                ("list", [V("y"), V("z")]), ("lambda", [], V("y"))]
    for d in defaults:
        lam = ("lambda", [("pd", "q", d)], V("q"))
        yield ("call", lam, [])
        yield ("call", lam, [I(3)])
        yield lam
        yield ("call", ("lambda", [("p", "a"), ("pd", "q", d)], ("list", [V("a"), V("q")])), [V("x")])
        yield ("call", ("lambda", [], ("call", lam, [])), [])
        yield ("call", ("lambda", [("pd", "q", d), ("pd", "r", V("q"))], ("list", [V("q"), V("r")])), [])
        yield ("seq", [("decl", "g", lam), ("list", [("call", V("g"), []), ("call", V("g"), [V("x")])])])
        yield ("for", [("each", "i", V("z"))], ("yield", ("call", lam, []), None))
    yield ("call", ("lambda", [("p", "a"), ("pd", "q", V("a"))], ("list", [V("a"), V("q")])), [V("y")])
    yield ("call", ("lambda", [("pd", "y", V("y"))], V("y")), [])
    yield ("call", ("lambda", [("pd", "q", ("decl", "v", V("y")))], V("q")), [])


def variant_bodies(tier):
    for src in VARIANT_RAWS:
        r = ("raw", src)
        yield r
        yield ("call", ("lambda", [], r), [])
        yield ("seq", [("decl", "y", I(1)), r])
        yield ("seq", [("decl", "z", ("list", [I(4), I(5)])), r])
        yield ("for", [("each", "i", V("z"))], ("yield", r, None))
        yield ("list", [r, V("y")])
        yield ("if", V("x"), r, I(0))
        yield ("try", r, "e", I(-1))


def bounds(tier):
    n = 3 if tier == "quick" else 4
    return {"body_max_nodes": n, "bodies": sum(len(bodies(k)) for k in range(1, n + 1)), "arguments": len(ARGS),
            "feature_families": [f for f, _ in c05.FAMILIES if f != "eval"] + ["switch", "crossing", "params", "variants"], "variant_fragments": len(VARIANT_RAWS), "param_bodies": sum(1 for _ in param_bodies(tier)), "crossing_bodies": sum(1 for _ in crossing_bodies(tier)), "switch_bodies": sum(1 for _ in switch_bodies(tier)), "outer_names": sorted(OUTER_NAMES), "unbound_name": "w"}


def cases(tier, shard, nshards):
    cnt = 0
    n = 3 if tier == "quick" else 4

    def mk(body, fam, nodes):
        b = render(body)
        lam = "(\\x -> %s)" % b
        steps = []
        for a in ARGS:
            arg = R.render(a)
            steps.append(OUTER + "%s(%s)" % (lam, arg))
            steps.append(OUTER + "(freeze %s)(%s)" % (lam, arg))
            steps.append(OUTER + "K := freeze %s; %sK(%s)" % (lam, REASSIGN, arg))
        steps.append(OUTER + 'K := freeze %s; "frozen"' % lam)
        return Case(steps, {"fam": fam, "ast": body, "nodes": nodes}, iso=True, opts=OPTS)
    for k in range(1, n + 1):
        for body in bodies(k):
            cnt += 1
            if cnt % nshards != shard:
                continue
            yield mk(body, "grammar", k)
    for fam, gen in c05.FAMILIES:
        if fam == "eval":
            continue
        for j, body in enumerate(gen()):
            cnt += 1
            if cnt % nshards != shard:
                continue
            if tier == "quick" and j % 4:
                continue
            yield mk(body, fam, 9)
    for body in switch_bodies(tier):
        cnt += 1
        if cnt % nshards != shard:
            continue
        yield mk(body, "switch", 9)
    for body in crossing_bodies(tier):
        cnt += 1
        if cnt % nshards != shard:
            continue
        yield mk(body, "crossing", 9)
    for body in param_bodies(tier):
        cnt += 1
        if cnt % nshards != shard:
            continue
        yield mk(body, "params", 9)
    for body in variant_bodies(tier):
        cnt += 1
        if cnt % nshards != shard:
            continue
        yield mk(body, "variants", 9)


def nontrivial(case, rs):
    return case.meta["nodes"] >= 2 and rs[-1].get("st") == "ok"


def outcome(r):
    st = r.get("st")
    if st == "ok":
        return ("ok", json.dumps(resort(c05.strip_funcs(norm(r.get("v")))), sort_keys=True), r.get("o", ""))
    if st in ("throw", "control"):
        return ("raised", r.get("o", ""))
    return (st,)


def tally(case, rs, extra):
    extra["family:" + case.meta["fam"]] += 1
    extra["freeze_" + str(rs[-1].get("st"))] += 1


def judge(case, rs):
    m = case.meta
    body = m["ast"]
    src = case.steps[-1]
    if any(r.get("st") in ("panic", "abort", "hang") for r in rs):
        bad = [(s, r) for s, r in zip(case.steps, rs) if r.get("st") in ("panic", "abort", "hang")][0]
        return [Violation("C17 family=%s result=%s" % (m["fam"], bad[1]["st"]), "%s -> %s %s" % (bad[0], bad[1]["st"], bad[1].get("e")), None, bad[1]["st"])]
    if any(r.get("st") in ("fuel", "parse_error") for r in rs):
        if rs[0].get("st") == "parse_error" and rs[1].get("st") != "parse_error":
            return [Violation("C17 harness parse asymmetry", case.steps[0], None, None)]
        return []
    must_fail, info = freeze_must_fail(body)
    fr = rs[-1]
    feat = c05.top_feature(body)
    out = []
    if must_fail and fr.get("st") == "ok":
        out.append(Violation("C17 family=%s top=%s result=freeze-accepted" % (m["fam"], feat),
                             "%s succeeded although the body mentions an unbound free variable / assigns an outer variable / imports / has a bare underscore" % src, "raise", "ok"))
        return out
    if not must_fail and fr.get("st") != "ok":
        out.append(Violation("C17 family=%s top=%s result=freeze-refused" % (m["fam"], feat), "%s -> %s %s; the free-variable analysis finds nothing to refuse" % (src, fr.get("st"), fr.get("e")), "ok", fr.get("st")))
        return out
    if must_fail:
        return []
    # local-vs-outer is decided at run time only where a declaration of an outer-bound name may or may not have run
    # (inside if / and / or / coalesce / try): straight-line redeclarations are resolved statically by freeze
    eager_ok = not (info["cond_declared"] & OUTER_NAMES)
    for j in range(len(ARGS)):
        a, b, c = rs[3 * j], rs[3 * j + 1], rs[3 * j + 2]
        oa, ob, oc = outcome(a), outcome(b), outcome(c)
        if oa != ob:
            out.append(Violation("C17 family=%s top=%s result=frozen-differs" % (m["fam"], feat),
                                 "%s -> %s but %s -> %s" % (case.steps[3 * j], short(a), case.steps[3 * j + 1], short(b)), oa, ob))
            break
        if eager_ok and oa != oc:
            # one construct is singled out in the signature: a lambda called immediately inside the right-hand side of the declaration
            # of a name it mentions (`z := (\\ -> .. z ..)()`): at run time that z is still the outer one, freeze treats it as the new one
            iife = " iife-in-own-declaration" if has_iife_self(m["ast"]) else ""
            out.append(Violation("C17 family=%s top=%s result=not-eagerly-bound%s" % (m["fam"], feat, iife),
                                 "%s -> %s but after reassigning the outer names the frozen function gives %s (%s)" % (case.steps[3 * j], short(a), short(c), case.steps[3 * j + 2]), oa, oc))
            break
    return out


def short(r):
    return json.dumps({k: r.get(k) for k in ("st", "v", "e", "o") if k in r})[:200]
