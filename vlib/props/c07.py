"""C07 - rationals are exact and the numeric tower coerces upward only as needed.

Alphabet: NUM x NUM (ints of every size/representation, fractions incl. integral-valued ones,
floats incl. non-finite, complex) x {+ - * / % // %% ^}, unary conversions, vector/scalar shapes.
Oracle: exact levels -> Python Fraction arithmetic incl. the result *level*; float level ->
bit-exact IEEE for + - * / and fmod for %, plus the coercion law
`a op b == float(a) op float(b)` (resp. `+0i`) evaluated by the interpreter itself; vectors ->
element-wise agreement with the scalar results of the same interpreter.
"""
import math
from fractions import Fraction

from ..canon import cI, cQ, cF, norm, num_value, hex2f, f2hex, lit_int, lit_frac, lit_float
from ..core import Case, Violation

PROP = "C07"
LEVEL = "exploration"
TECHNIQUE = "bounded exhaustive enumeration of number-pair x operator grid on the real interpreter, Fraction/IEEE reference + in-interpreter coercion law"
RULE = ("every (operator, a, b) over the NUM pool is run once (plus conversions and all vector/scalar shapes "
        "over a sub-pool); non-trivial = the reference defines a value; distinct by program text")
ASSUMPTIONS = ["Python Fraction / IEEE-754 double arithmetic is the reference",
               "float // and %% are only checked through the coercion law (documented as incompletely defined)"]
SHARDED = True
RAISE = "raise"
BINOPS = ["+", "-", "*", "/", "%", "//", "%%"]
LEVELS = {"i": 0, "q": 1, "f": 2, "c": 3}


def pool(tier):
    P = []

    def add(c, src):
        P.append((c, src))
    # bases whose small powers land just below / inside / above [2^63, 2^64): 255^8, 65535^4, (2^32-1)^2, 3037000500^2
    ints = [0, 1, -1, 2, -2, 3, -3, 7, -7, 10, 15, -255, 255, 256, 65535, 2 ** 32 - 1, 3037000499, 3037000500, 2 ** 31, 2 ** 53 + 1, 2 ** 63 - 1, 2 ** 63, -2 ** 63, -2 ** 63 - 1,
            2 ** 64, 2 ** 100 + 1, -(2 ** 100), 10 ** 30]
    if tier == "tiny":
        ints = [0, 1, -1, 2, -3, 7, 255, 65535, 2 ** 32 - 1, 3037000500, 2 ** 53 + 1, 2 ** 63, -2 ** 63 - 1, 2 ** 100 + 1]
    for v in ints:
        add(cI(v), lit_int(v))
    add(cI(3), "((2^70+3)-2^70)")
    add(cI(-2), "((2^70-2)-2^70)")
    if tier == "thorough":
        # every small operand also in big representation (arithmetic never re-normalises), and both neighbours of each word boundary
        have = {c[1] for c, _ in P}
        for v in (-7, -3, -1, 0, 1, 2, 4, 7, 10, 255, 256, 65535, 2 ** 31, 2 ** 32 - 1, 2 ** 62, 2 ** 63 - 1, -2 ** 63):
            add(cI(v), "((2^70+%d)-2^70)" % v if v >= 0 else "((2^70-%d)-2^70)" % (-v))
        for k in (31, 32, 62, 63, 64):
            for sign in (1, -1):
                for d in (-1, 0, 1):
                    v = sign * (2 ** k + d)
                    if str(v) not in have:
                        have.add(str(v))
                        add(cI(v), lit_int(v))
    fr = [(1, 2), (-1, 2), (1, 3), (-1, 3), (3, 2), (-3, 2), (7, 3), (-7, 3), (5, 4), (1, 7), (22, 7), (-22, 7),
          (2 ** 64 + 1, 2 ** 64), (1, 2 ** 70), (-(10 ** 30 + 1), 10 ** 15 + 3), (2 ** 100 + 1, 3),
          (2 ** 1100 + 1, 2 ** 1100), (1, 2 ** 1080)]
    # parts beyond 2^53 for which float(n) / float(d) is NOT the correctly rounded quotient (conversion must not round twice)
    twice = [(9007199254740993, 7), (7, 9007199254740993), (-9007199254740995, 3), (9007199254740997, 9007199254740999), (10000000000000001, 9007199254740995)]
    fr += twice
    if tier == "thorough":
        # one word part next to one big part on either side, halves at the float midpoints around 2^53, a denominator at the word boundary
        fr += [(2 ** 63 - 1, 2), (-(2 ** 63 + 1), 2), (1, 2 ** 63 - 1), (1, 2 ** 63), (-1, 2 ** 64 + 1), (2 ** 54 + 1, 2), (2 ** 54 + 3, 2),
               (-(2 ** 54 + 1), 2), (2 ** 63 - 1, 2 ** 63 + 1), (10 ** 18 + 1, 10 ** 18), (1, 10), (-3, 10), (2, 3), (-5, 7)]
    if tier == "tiny":
        fr = [(1, 2), (-1, 2), (1, 3), (-7, 3), (3, 2), (2 ** 64 + 1, 2 ** 64), (-(10 ** 30 + 1), 10 ** 15 + 3)] + twice[:3]
    for n, d in fr:
        add(cQ(Fraction(n, d)), lit_frac(Fraction(n, d)))
    # integral-valued rationals keep the rational level
    add(["q", "2", "1"], "(4/2)")
    add(["q", "0", "1"], "(0/5)")
    add(["q", "-3", "1"], "(-(6/2))")
    if tier != "quick":
        add(["q", str(2 ** 64), "1"], "(2^65/2)")
    fl = [0.0, -0.0, 0.5, -0.5, 0.1, 1.5, -1.5, 2.0, 3.0, 2.0 ** 53, 2.0 ** 53 + 2, 2.0 ** 63, 2.0 ** 64, 1e300, 5e-324,
          math.inf, -math.inf, math.nan]
    if tier == "thorough":
        fl += [-2.0, 0.3, 1.0, -1.0, 2.0 ** 52 + 0.5, -(2.0 ** 63), 2.0 ** 63 + 2048.0, 2.0 ** 62, 1.7976931348623157e308, -1e300, 1e-300, 2.2250738585072014e-308, -5e-324]
    if tier == "tiny":
        fl = [0.0, -0.0, 0.5, -1.5, 0.1, 3.0, 2.0 ** 53, 2.0 ** 64, 1e300, math.inf, -math.inf, math.nan]
    for x in fl:
        add(cF(x), lit_float(x))
    cx = [(0.0, 1.0, "1i"), (1.0, 1.0, "(1+1i)"), (-1.0, -2.0, "(-(1+2i))"), (0.0, 0.0, "(0.0+0i)"),
          (0.5, 0.0, "(0.5+0i)"), (1.0, 0.0, "(1+0i)")]
    if tier == "tiny":
        cx = cx[:3] + cx[5:]
    for re, im, s in cx:
        add(["c", f2hex(re), f2hex(im)], s)
    return P


def finite(c):
    if c[0] == "f":
        x = hex2f(c[1])
        return x == x and not math.isinf(x)
    if c[0] == "c":
        return all(finite(["f", h]) for h in c[1:])
    if c[0] in ("i", "q"):
        return to_float_ref(c) is not None
    return True


def trunc_frac(x):
    return int(x) if x >= 0 else -int(-x)


def exact_bin(op, a, b, la, lb):
    """a, b exact (int or Fraction); la/lb their levels 'i'/'q'. Returns canon or RAISE."""
    lvl = "q" if "q" in (la, lb) else "i"

    def out(v):
        v = Fraction(v)
        if lvl == "q":
            return cQ(v)
        assert v.denominator == 1
        return cI(v.numerator)
    if op == "+":
        return out(a + b)
    if op == "-":
        return out(a - b)
    if op == "*":
        return out(a * b)
    if op == "/":
        if b == 0:
            # "a zero divisor falls back to float infinity/NaN": the float quotient of the converted
            # dividend (a dividend that underflows to 0.0 gives NaN like 0/0 does)
            fa = to_float_ref(cQ(Fraction(a)))
            if fa is None:
                fa = math.inf if a > 0 else -math.inf
            return cF(math.nan) if fa == 0 else cF(math.inf if fa > 0 else -math.inf)
        return cQ(Fraction(a) / Fraction(b))
    if b == 0:
        return RAISE
    if op == "//":
        return out(math.floor(Fraction(a) / Fraction(b)))
    if op == "%%":
        return out(Fraction(a) - Fraction(b) * math.floor(Fraction(a) / Fraction(b)))
    if op == "%":
        return out(Fraction(a) - Fraction(b) * trunc_frac(Fraction(a) / Fraction(b)))
    raise KeyError(op)


def float_bin(op, x, y):
    try:
        if op == "+":
            return x + y
        if op == "-":
            return x - y
        if op == "*":
            return x * y
        if op == "/":
            if y == 0.0:
                if x != x or x == 0.0:
                    return math.nan
                neg = (math.copysign(1, x) < 0) != (math.copysign(1, y) < 0)
                return -math.inf if neg else math.inf
            return x / y
        if op == "%":
            if y == 0.0 or math.isinf(x):
                return math.nan
            return math.fmod(x, y)
    except OverflowError:
        return None
    return None


def to_float_ref(c):
    """correctly rounded float of an exact canon number, or None when out of range."""
    v = num_value(c)
    try:
        return float(v) if isinstance(v, int) else v.numerator / v.denominator
    except OverflowError:
        return None


def src_of(op, sa, sb):
    return "%s %s %s" % (sa, op, sb)


UNARY = ["numerator", "denominator", "floor", "ceil", "round", "int", "rational", "float", "neg", "abs"]


def ref_unary(fn, c):
    t = c[0]
    if t == "c":
        return None  # not asserted
    v = num_value(c)
    if t == "f":
        x = v
        if fn in ("numerator", "denominator"):
            return None
        if x != x or math.isinf(x):
            if fn == "float":
                return c
            if fn in ("neg",):
                return cF(-x)
            if fn == "abs":
                return cF(abs(x))
            return None  # floor/int/rational of non-finite: not asserted (must not crash: C14)
        ex = Fraction(x)
        if fn == "floor":
            return cI(math.floor(ex))
        if fn == "ceil":
            return cI(math.ceil(ex))
        if fn == "round":
            return cI(round_half_away(ex))
        if fn == "int":
            return cI(trunc_frac(ex))
        if fn == "rational":
            return cQ(ex)
        if fn == "float":
            return c
        if fn == "neg":
            return cF(-x)
        if fn == "abs":
            return cF(abs(x))
    ex = Fraction(v)
    if fn == "numerator":
        return cI(ex.numerator)
    if fn == "denominator":
        return cI(ex.denominator)
    if fn == "floor":
        return cI(math.floor(ex))
    if fn == "ceil":
        return cI(math.ceil(ex))
    if fn == "round":
        return cI(round_half_away(ex))
    if fn == "int":
        return cI(trunc_frac(ex))
    if fn == "rational":
        return cQ(ex)
    if fn == "float":
        return "float-nearest"
    if fn == "neg":
        return cQ(-ex) if t == "q" else cI(-ex.numerator)
    if fn == "abs":
        return cQ(abs(ex)) if t == "q" else cI(abs(ex.numerator))
    return None


def round_half_away(ex):
    f = math.floor(ex)
    d = ex - f
    if d > Fraction(1, 2):
        return f + 1
    if d < Fraction(1, 2):
        return f
    return f + 1 if ex > 0 else f


def bounds(tier):
    return {"pool": len(pool(tier)), "binary_ops": BINOPS + ["^ (int exponents -3..5)"], "unary": UNARY,
            "vector_subpool": 6, "vector_len": 3}


def cases(tier, shard, nshards):
    P = pool(tier)
    n = 0
    for ca, sa in P:
        for cb, sb in P:
            n += 1
            if n % nshards != shard:
                continue
            for op in BINOPS:
                la, lb = ca[0], cb[0]
                steps = [src_of(op, sa, sb)]
                law = None
                if max(LEVELS[la], LEVELS[lb]) == 2 and (la != "f" or lb != "f"):
                    steps.append("float(%s) %s float(%s)" % (sa, op, sb))
                    law = "float"
                elif max(LEVELS[la], LEVELS[lb]) == 3 and (la != "c" or lb != "c"):
                    # complex level: the law is asserted for + - * on finite operands (zero signs
                    # identified); / % // %% only have their level checked (formulas differ in the last ulp)
                    law = "complex-level"
                    if op in ("+", "-", "*") and finite(ca) and finite(cb):
                        steps.append("(%s + 0i) %s (%s + 0i)" % (sa, op, sb))
                        law = "complex"
                if max(LEVELS[la], LEVELS[lb]) <= 1 and op in ("//", "%%"):
                    steps.append("(%s // %s) * %s + (%s %%%% %s) == %s" % (sa, sb, sb, sa, sb, sa))
                yield Case(steps, {"k": "bin", "op": op, "a": ca, "b": cb, "law": law}, iso=False)
        n += 1
        if n % nshards == shard:
            for e in list(range(-3, 6)) + [8, -8, 16, 63, 64]:
                yield Case(["%s ^ %s" % (sa, lit_int(e))], {"k": "pow", "a": ca, "e": e}, iso=False)
            for fn in UNARY:
                src = "-(%s)" % sa if fn == "neg" else "%s(%s)" % (fn, sa)
                yield Case([src], {"k": "un", "fn": fn, "a": ca}, iso=False)
    # vectors: every shape over a 6-value sub-pool
    sub = [(cI(2), "2"), (cI(-3), "(-3)"), (cQ(Fraction(1, 2)), "(1/2)"), (cF(1.5), "1.5"), (cI(0), "0"),
           (cI(2 ** 64), "(2^64)")]
    import itertools
    vecs = list(itertools.product(range(len(sub)), repeat=3)) if tier != "quick" else \
        [(0, 1, 2), (2, 3, 4), (5, 0, 4), (1, 1, 1), (4, 4, 4), (3, 5, 2)]
    for op in BINOPS + ["^"]:
        for v in vecs:
            n += 1
            if n % nshards != shard:
                continue
            xs = [sub[i][1] for i in v]
            vsrc = "V(%s)" % ", ".join(xs)
            for (cs, ss) in sub:
                if op == "^" and (cs[0] != "i" or abs(int(cs[1])) > 5):
                    continue
                yield Case(["%s %s %s" % (vsrc, op, ss), "[%s]" % ", ".join("%s %s %s" % (x, op, ss) for x in xs)],
                           {"k": "vs", "op": op}, iso=False)
                if op != "^":
                    yield Case(["%s %s %s" % (ss, op, vsrc), "[%s]" % ", ".join("%s %s %s" % (ss, op, x) for x in xs)],
                               {"k": "sv", "op": op}, iso=False)
            if op != "^":
                w = v[::-1]
                ys = [sub[i][1] for i in w]
                yield Case(["%s %s V(%s)" % (vsrc, op, ", ".join(ys)),
                            "[%s]" % ", ".join("%s %s %s" % (x, op, y) for x, y in zip(xs, ys))],
                           {"k": "vv", "op": op}, iso=False)
                yield Case(["%s %s V(%s)" % (vsrc, op, ", ".join(ys[:2]))], {"k": "vlen", "op": op}, iso=False)
                yield Case(["V(%s) %s %s" % (", ".join(ys[:2]), op, vsrc)], {"k": "vlen", "op": op}, iso=False)
                # lengths that differ by two, and an empty side
                yield Case(["%s %s V(%s)" % (vsrc, op, ys[0])], {"k": "vlen", "op": op}, iso=False)
                yield Case(["V(%s) %s %s" % (ys[0], op, vsrc)], {"k": "vlen", "op": op}, iso=False)
                yield Case(["%s %s V()" % (vsrc, op)], {"k": "vlen", "op": op}, iso=False)
                yield Case(["V() %s %s" % (op, vsrc)], {"k": "vlen", "op": op}, iso=False)
                yield Case(["V(%s) %s V()" % (ys[0], op)], {"k": "vlen", "op": op}, iso=False)
                yield Case(["V() %s V(%s)" % (op, ys[0])], {"k": "vlen", "op": op}, iso=False)


def nontrivial(case, rs):
    return rs[0].get("st") == "ok"


def lvlname(c):
    return {"i": "int", "q": "rational", "f": "float", "c": "complex"}[c[0]]


def fclass(c):
    t = c[0]
    if t in ("i", "q"):
        v = num_value(c)
        s = "zero" if v == 0 else ("pos" if v > 0 else "neg")
        big = abs(Fraction(v).numerator).bit_length() > 63 or Fraction(v).denominator.bit_length() > 63
        return lvlname(c) + ":" + s + ("-big" if big else "")
    if t == "f":
        x = hex2f(c[1])
        if x != x:
            return "float:nan"
        if math.isinf(x):
            return "float:inf"
        return "float:" + ("zero" if x == 0 else ("pos" if x > 0 else "neg"))
    return "complex"


def crashed(st):
    return st in ("panic", "abort", "hang")


def same_num(a, b):
    """canon numbers equal, NaNs identified."""
    a, b = norm(a), norm(b)
    if a == b:
        return True
    if a and b and a[0] == b[0] == "f":
        x, y = hex2f(a[1]), hex2f(b[1])
        return x != x and y != y
    if a and b and a[0] == b[0] == "c":
        xs = [hex2f(a[1]), hex2f(a[2])]
        ys = [hex2f(b[1]), hex2f(b[2])]
        return all((p != p and q != q) or p == q for p, q in zip(xs, ys))
    return False


def judge(case, rs):
    m = case.meta
    k = m["k"]
    r0 = rs[0]
    st = r0.get("st")
    src = case.steps[0]
    if k == "bin":
        op, a, b = m["op"], m["a"], m["b"]
        cls = "%s,%s" % (fclass(a), fclass(b))
        la, lb = a[0], b[0]
        out = []
        if LEVELS[la] <= 1 and LEVELS[lb] <= 1:
            exp = exact_bin(op, num_value(a), num_value(b), la, lb)
            if exp == RAISE:
                if st == "ok":
                    out.append(Violation("C07 op=%s class=%s kind=no-error" % (op, cls), "%s gave %s, reference raises" % (src, r0.get("v")), "raise", r0.get("v")))
                return out
            if st != "ok":
                return [Violation("C07 op=%s class=%s kind=%s" % (op, cls, st), "%s: expected %s, status %s %s" % (src, exp, st, r0.get("e")), exp, st)]
            if not same_num(r0["v"], exp):
                return [Violation("C07 op=%s class=%s kind=wrong-value" % (op, cls), "%s: expected %s, got %s" % (src, exp, norm(r0["v"])), exp, norm(r0["v"]))]
            if len(rs) > 1 and op in ("//", "%%"):
                r1 = rs[1]
                if r1.get("st") == "ok" and norm(r1["v"]) != cI(1):
                    out.append(Violation("C07 op=pairing class=%s kind=identity-fails" % cls, "%s gave %s" % (case.steps[1], r1.get("v")), cI(1), r1.get("v")))
            return out
        # float / complex level
        if la == "f" and lb == "f":
            exp = float_bin(op, hex2f(a[1]), hex2f(b[1]))
            if exp is not None:
                if st != "ok":
                    if crashed(st) or st == "throw":
                        return [Violation("C07 op=%s class=%s kind=%s" % (op, cls, st), "%s: expected float %r, status %s %s" % (src, exp, st, r0.get("e")), cF(exp), st)]
                elif not same_num(r0["v"], cF(exp)):
                    return [Violation("C07 op=%s class=%s kind=wrong-value" % (op, cls), "%s: expected %s (%r), got %s" % (src, cF(exp), exp, r0["v"]), cF(exp), r0["v"])]
            return []
        if m["law"] == "complex-level":
            if st == "ok" and r0["v"][0] != "c":
                out.append(Violation("C07 op=%s class=%s kind=wrong-level" % (op, cls), "%s gave level %s, expected complex" % (src, r0["v"][0]), "c", r0["v"]))
            return out
        if m["law"] and len(rs) > 1:
            r1 = rs[1]
            want_lvl = "f" if m["law"] == "float" else "c"
            if st == "ok" and r1.get("st") == "ok":
                if r0["v"][0] != want_lvl and not (r0["v"][0] == "f" and want_lvl == "c"):
                    out.append(Violation("C07 op=%s class=%s kind=wrong-level" % (op, cls), "%s gave level %s, expected %s" % (src, r0["v"][0], want_lvl), want_lvl, r0["v"]))
                elif not same_num(r0["v"], r1["v"]):
                    out.append(Violation("C07 op=%s class=%s kind=coercion-law" % (op, cls), "%s gave %s but %s gave %s" % (src, r0["v"], case.steps[1], r1["v"]), r1["v"], r0["v"]))
            elif (st == "ok") != (r1.get("st") == "ok"):
                if op in ("%", "//", "%%") and b[0] in ("i", "q") and num_value(b) != 0 and to_float_ref(b) == 0.0:
                    return out  # nonzero divisor that underflows to 0.0 when converted: not asserted
                out.append(Violation("C07 op=%s class=%s kind=coercion-law-status" % (op, cls), "%s -> %s %s; %s -> %s %s" % (src, st, r0.get("e", r0.get("v")), case.steps[1], r1.get("st"), r1.get("e", r1.get("v"))), r1.get("st"), st))
        return out
    if k == "pow":
        a, e = m["a"], m["e"]
        cls = fclass(a)
        if a[0] in ("i", "q"):
            v = Fraction(num_value(a))
            if v == 0 and e < 0:
                return []
            ex = v ** e
            if a[0] == "i" and e >= 0:
                exp = cI(ex.numerator)
            else:
                exp = cQ(ex)
            if st != "ok":
                return [Violation("C07 op=^ class=%s,exp%s kind=%s" % (cls, "neg" if e < 0 else "nonneg", st), "%s: expected %s, status %s %s" % (src, exp, st, r0.get("e")), exp, st)]
            got = norm(r0["v"])
            if got != exp:
                return [Violation("C07 op=^ class=%s,exp%s kind=wrong-value" % (cls, "neg" if e < 0 else "nonneg"), "%s: expected %s got %s" % (src, exp, got), exp, got)]
        return []
    if k == "un":
        fn, a = m["fn"], m["a"]
        exp = ref_unary(fn, a)
        cls = fclass(a)
        if exp is None:
            return []
        if st != "ok":
            return [Violation("C07 fn=%s class=%s kind=%s" % (fn, cls, st), "%s: expected %s, status %s %s" % (src, exp, st, r0.get("e")), exp, st)]
        got = norm(r0["v"])
        if exp == "float-nearest":
            if got[0] != "f":
                return [Violation("C07 fn=float class=%s kind=wrong-level" % cls, "%s gave %s" % (src, got), "float", got)]
            x = hex2f(got[1])
            v = Fraction(num_value(a))
            ref = to_float_ref(a)
            if ref is None:
                ok = math.isinf(x) and (x > 0) == (v > 0)
            else:
                ok = f2hex(x) == f2hex(ref) or (x == ref) or (not math.isinf(x) and x == x and
                                                               abs(Fraction(x) - v) <= abs(Fraction(math.nextafter(ref, math.inf)) - Fraction(math.nextafter(ref, -math.inf))) / 2)
            if not ok:
                return [Violation("C07 fn=float class=%s kind=wrong-value" % cls, "%s: expected about %r, got %r" % (src, ref, x), cF(ref) if ref is not None else "inf", got)]
            return []
        if not same_num(got, exp):
            return [Violation("C07 fn=%s class=%s kind=wrong-value" % (fn, cls), "%s: expected %s got %s" % (src, exp, got), exp, got)]
        return []
    if k in ("vs", "sv", "vv"):
        if len(rs) < 2:
            return []
        r1 = rs[1]
        op = m["op"]
        if r1.get("st") == "ok":
            if st != "ok":
                return [Violation("C07 vector shape=%s op=%s kind=%s" % (k, op, st), "%s -> %s %s but scalars give %s" % (src, st, r0.get("e"), r1["v"]), r1["v"], st)]
            want = r1["v"][1]
            got = r0["v"]
            if got[0] != "v" or len(got[1]) != len(want) or not all(same_num(x, y) for x, y in zip(got[1], want)):
                return [Violation("C07 vector shape=%s op=%s kind=wrong-value" % (k, op), "%s -> %s but scalars give %s" % (src, got, want), want, got)]
        elif r1.get("st") == "throw" and st == "ok":
            return [Violation("C07 vector shape=%s op=%s kind=no-error" % (k, op), "%s -> %s but scalar form raises %s" % (src, r0["v"], r1.get("e")), "raise", r0["v"])]
        return []
    if k == "vlen":
        if st == "ok":
            return [Violation("C07 vector shape=mismatch op=%s kind=no-error" % m["op"], "%s -> %s, different lengths must be rejected" % (src, r0["v"]), "raise", r0["v"])]
        if crashed(st):
            return [Violation("C07 vector shape=mismatch op=%s kind=%s" % (m["op"], st), "%s -> %s" % (src, r0.get("e")), "raise", st)]
        return []
    return []
