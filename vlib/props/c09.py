"""C09 - dictionaries are finite maps keyed by value equality.

(a) Explicit-state search: every sequence (to the depth bound) of dictionary operations over a key
    pool that contains several representatives of each ==-class (1, 1.0, 2/2, 1+0i, big-repr 1;
    1/2, 0.5; 0, 0.0, -0.0; 2^64, 2.0^64; NaN; [1], [1.0]; V(1), V(1.0); {1: 2}, {1.0: 2}; "1";
    B[1]; null), from three start states, with the full observation battery after every step.
    Reference model: a Python dict keyed by class id that also tracks the *stored representative*.
(b) Grid: every key sequence up to a length bound through literal construction, set, dict, unique,
    frequencies, count_distinct, group_all, keys/values/items, len, memoize.
"""
import itertools
import json
from collections import Counter

from ..canon import cI, cF, norm, resort
from ..core import Case, Violation

PROP = "C09"
LEVEL = "model_checking"
SEARCH = True
TECHNIQUE = "explicit-state BFS over dictionary operation histories on the real interpreter with a lock-step Python finite-map model, plus exhaustive key-sequence grid"
RULE = ("search: every statement of the alphabet is tried in every reached state up to the depth bound; "
        "non-trivial = the statement is valid in that state (state extended). grid: every key sequence up to the length bound")
SEARCH_NOTE = ("states are merged on the engine's canonical dump of the dictionary including the stored representative of each key "
               "and the default; every transition is executed on the real interpreter and compared with the model")
ASSUMPTIONS = ["equality classes of the key pool are as listed in the module (exact numeric equality, NaN equal to itself)"]

NAN = ["f", "7ff8000000000000"]
# (class, source, canon)
REPS = [
    ("one", "1", cI(1)), ("one", "1.0", cF(1.0)), ("one", "(2/2)", ["q", "1", "1"]), ("one", "(1+0i)", ["c", "3ff0000000000000", "0000000000000000"]),
    ("one", "((2^70+1)-2^70)", cI(1)),
    ("half", "(1/2)", ["q", "1", "2"]), ("half", "0.5", cF(0.5)),
    ("zero", "0", cI(0)), ("zero", "0.0", cF(0.0)), ("zero", "(-0.0)", cF(-0.0)),
    ("big", "(2^64)", cI(2 ** 64)), ("big", "(2.0^64)", cF(2.0 ** 64)),
    ("nan", "(0.0/0.0)", "NAN"),
    ("l1", "[1]", ["l", [cI(1)]]), ("l1", "[1.0]", ["l", [cF(1.0)]]),
    ("v1", "V(1)", ["v", [cI(1)]]), ("v1", "V(1.0)", ["v", [cF(1.0)]]),
    ("d12", "{1: 2}", ["d", [[cI(1), cI(2)]]]), ("d12", "{1.0: 2}", ["d", [[cF(1.0), cI(2)]]]),
    ("s1", '"1"', ["s", "1"]), ("b1", "B[1]", ["b", [1]]), ("null", "null", None),
    # NaN nested in a vector / list / dict key (NaN equal to itself at every depth), with a second representative of the vector class
    ("vnan", "V(1, 0.0/0.0)", ["v", [cI(1), NAN]]), ("vnan", "V(1.0, 0.0/0.0)", ["v", [cF(1.0), NAN]]),
    ("lnan", "[0.0/0.0]", ["l", [NAN]]), ("dnan", "{1: 0.0/0.0}", ["d", [[cI(1), NAN]]]),
    # an integer that no float represents, as an int and as an integral-valued rational (hash must not go through f64)
    ("wide", "(2^53+1)", cI(2 ** 53 + 1)), ("wide", "((2^54+2)/2)", ["q", str(2 ** 53 + 1), "1"]),
    ("third", "(1/3)", ["q", "1", "3"]), ("third", "((2^70+1)/(3*2^70+3))", ["q", "1", "3"]),
    # dict equality ignores the default, so a dict key with a default is the same key as the plain one
    ("d12", "{:0, 1: 2}", ["d", [[cI(1), cI(2)]], cI(0)]),
    # a non-real complex number whose real part is -0.0 / +0.0 (equal, different bits)
    ("negi", "(-1i)", ["c", cF(-0.0)[1], cF(-1.0)[1]]), ("negi", "(0 - 1i)", ["c", cF(0.0)[1], cF(-1.0)[1]]),
    # -2^63: the one machine word whose magnitude needs 64 bits - as a machine word, in big representation, as a float
    ("m63", "(0 - 9223372036854775807 - 1)", cI(-2 ** 63)), ("m63", "((0 - 2)^63)", cI(-2 ** 63)), ("m63", "(0.0 - 2.0^63)", cF(-2.0 ** 63)),
    # a dictionary of eight entries written in two orders (two separately built tables iterate differently, 8! orders: equality
    # and hash of a dict key may not follow iteration order), alone and nested in a list key
    ("d8", "{%s}" % ", ".join("%d: %d" % (i, i) for i in range(1, 9)), ["d", [[cI(i), cI(i)] for i in range(1, 9)]]),
    ("d8", "{%s}" % ", ".join("%d: %d" % (i, i) for i in range(8, 0, -1)), ["d", [[cI(i), cI(i)] for i in range(1, 9)]]),
    ("ld8", "[{%s}]" % ", ".join("%d: %d" % (i, i) for i in range(1, 9)), ["l", [["d", [[cI(i), cI(i)] for i in range(1, 9)]]]]),
    ("ld8", "[{%s}]" % ", ".join("%d: %d" % (i, i) for i in range(8, 0, -1)), ["l", [["d", [[cI(i), cI(i)] for i in range(1, 9)]]]]),
    # machine-word integers that no float represents next to the float they would round to (2^53+1 is class `wide` above): key
    # equality and == may not go through f64
    ("f53", "(2^53)", cI(2 ** 53)), ("f53", "(2.0^53)", cF(2.0 ** 53)),
    ("w63", "9223372036854775807", cI(2 ** 63 - 1)), ("f63", "(2^63)", cI(2 ** 63)), ("f63", "(2.0^63)", cF(2.0 ** 63)),
    ("wide", "9007199254740993", cI(2 ** 53 + 1)),      # the machine-word spelling of 2^53+1 (`2^53+1` is held in big representation)
    # NaNs with the other sign bit (0.0/0.0 has it set on x86, its negation and float("nan") do not): one key class whatever the bits
    ("nan", "(-(0.0/0.0))", "NAN"), ("vnan", "V(1, -(0.0/0.0))", ["v", [cI(1), NAN]]), ("lnan", "[-(0.0/0.0)]", ["l", [NAN]]),
    ("dnan", "{1: -(0.0/0.0)}", ["d", [[cI(1), NAN]]]),
]
QUICK_REPS = [0, 1, 2, 5, 6, 10, 11, 13, 14, 17, 30, 19, 22, 23, 26, 27, 31, 32, 33, 34, 35, 36, 37, 41, 42, 44, 45, 12, 46, 47]       # 1, 1.0, 2/2, 1/2, 0.5, 2^64, 2.0^64, [1], [1.0], "1", V(1, NaN), V(1.0, NaN)
# depth-3 search: 21 representatives ([NaN], {1: NaN} and the two spellings of 1/3 stay in the grid family, which uses every representative)
MID_REPS = [0, 1, 2, 3, 4, 5, 6, 7, 9, 10, 11, 12, 13, 14, 15, 16, 17, 30, 19, 22, 23, 26, 27, 31, 32, 33, 34, 35, 36, 37, 38, 39, 40, 41, 42, 43, 44, 45, 46, 47, 48, 49]

OPS = ["set", "inc", "rem", "add", "sub", "merge", "inter", "minus", "plus", "ins"]
RAISE = "raise"


def reps_for(tier):
    return QUICK_REPS if tier == "quick" else MID_REPS


# thorough tier: every representative to depth 2, and a core of 16 (two per class that has two) to depth 3
CORE_REPS = [0, 1, 2, 5, 6, 7, 9, 10, 11, 12, 13, 14, 22, 23, 26, 27]


def starts(tier):
    base = [{"name": "empty", "pre": "d := {}", "model": {}, "default": "none"},
            {"name": "default0", "pre": "d := {:0}", "model": {}, "default": 0},
            {"name": "populated", "pre": "d := {1.0: 10, (1/2): 20, [1]: 30}",
             "model": {"one": [1, 10], "half": [5, 20], "l1": [13, 30]}, "default": "none"}]
    if tier == "quick":
        return [dict(b, mode="all") for b in base]
    return [dict(b, mode="all") for b in base] + [dict(b, mode="core", name=b["name"] + "/core") for b in base]


def alphabet_h(tier, start, hist):
    if start.get("mode") == "core":
        return [[op, k] for op in OPS for k in CORE_REPS]
    if len(hist) >= 2:
        return []          # all representatives: depth 2
    return alphabet(tier, start)


def alphabet(tier, start):
    out = []
    for op in OPS:
        for k in reps_for(tier):
            out.append([op, k])
    return out


def render(stmt):
    op, k = stmt
    ks = REPS[k][1]
    return {"set": "d[%s] = 7" % ks, "inc": "d[%s] += 1" % ks, "rem": "remove d[%s]" % ks, "add": "d |.= %s" % ks,
            "sub": "d -.= %s" % ks, "merge": "d ||= {%s: 8}" % ks, "inter": "d &&= {%s}" % ks, "minus": "d --= {%s}" % ks,
            "plus": "d ||+= {%s: 1}" % ks, "ins": "d = d insert [%s, 9]" % ks}[op]


def apply(model, default, stmt):
    """model: class -> [rep index, value]. Returns new model or RAISE."""
    op, k = stmt
    c = REPS[k][0]
    m = {a: list(b) for a, b in model.items()}
    if op in ("set", "merge", "ins"):
        v = {"set": 7, "merge": 8, "ins": 9}[op]
        if c in m:
            m[c][1] = v
        else:
            m[c] = [k, v]
        return m
    if op == "inc":
        if c in m:
            if not isinstance(m[c][1], int):
                return RAISE
            m[c][1] += 1
        elif default != "none":
            m[c] = [k, default + 1]
        else:
            return RAISE
        return m
    if op == "rem":
        if c not in m:
            return RAISE
        del m[c]
        return m
    if op == "add":
        if c in m:
            m[c][1] = None
        else:
            m[c] = [k, None]
        return m
    if op in ("sub", "minus"):
        m.pop(c, None)
        return m
    if op == "inter":
        return {a: b for a, b in m.items() if a == c}
    if op == "plus":
        if c in m:
            if not isinstance(m[c][1], int):
                return RAISE
            m[c][1] += 1
        else:
            m[c] = [k, 1]
        return m
    raise KeyError(op)


def obs_src(tier):
    parts = []
    for k in reps_for(tier):
        ks = REPS[k][1]
        parts.append('[%s in d, d !? %s, try d[%s] catch e -> "KE"]' % (ks, ks, ks))
    return "[len(d), [%s]]" % ", ".join(parts)


def cval(v):
    return None if v is None else cI(v)


def obs_expected(tier, model, default):
    rows = []
    for k in reps_for(tier):
        c = REPS[k][0]
        if c in model:
            v = cval(model[c][1])
            rows.append(["l", [cI(1), v, v]])
        elif default != "none":
            rows.append(["l", [cI(0), cI(default), cI(default)]])
        else:
            rows.append(["l", [cI(0), None, ["s", "KE"]]])
    return ["l", [cI(len(model)), ["l", rows]]]


def fix_nan(c):
    return NAN if c == "NAN" else c


def is_nan_c(c):
    return isinstance(c, list) and len(c) == 2 and c[0] == "f" and c[1].lower() in ("7ff8000000000000", "fff8000000000000")


def canon_nan(v):
    """normalise any NaN bit pattern"""
    if isinstance(v, list):
        if is_nan_c(v):
            return NAN
        return [canon_nan(x) for x in v]
    return v


def dump_expected(model, default):
    ents = [[fix_nan(REPS[rep][2]), cval(val)] for (rep, val) in model.values()]
    out = ["d", ents]
    if default != "none":
        out.append(cI(default))
    return out


def replay_model(start, hist):
    model = {a: list(b) for a, b in start["model"].items()}
    for s in hist:
        r = apply(model, start["default"], s)
        if r == RAISE:
            return RAISE
        model = r
    return model


def make_case(tier, start, hist):
    steps = [render(s) for s in hist] + [obs_src(tier)]
    return Case(steps, {"kind": "hist", "start": start, "hist": hist, "tier": tier}, pre=[start["pre"]], iso=False,
                opts={"dump": ["d"]})


def depth(tier):
    return 2 if tier == "quick" else 3


def crosscheck_depth(tier):
    return 0 if tier == "quick" else 2


def extends(case, rs):
    m = case.meta
    model = replay_model(m["start"], m["hist"])
    n = len(m["hist"])
    return model != RAISE and len(rs) > n and rs[n - 1].get("st") == "ok" and rs[n].get("st") == "ok"


def state_key(case, rs):
    n = len(case.meta["hist"])
    return json.dumps(canon_nan(norm(rs[n - 1]["d"]["d"])), sort_keys=True)


def judge(case, rs):
    m = case.meta
    if m["kind"] != "hist":
        return judge_grid(case, rs)
    start, hist, tier = m["start"], m["hist"], m["tier"]
    n = len(hist)
    before = replay_model(start, hist[:-1])
    if before == RAISE:
        return []
    stmt = hist[-1]
    after = apply(before, start["default"], stmt)
    r = rs[n - 1] if len(rs) >= n else {"st": "missing"}
    st = r.get("st")
    kcls = REPS[stmt[1]][0]
    present = kcls in before
    sig = "C09 op=%s key=%s(%s) %s default=%s" % (stmt[0], kcls, REPS[stmt[1]][1], "present" if present else "absent", start["default"] != "none")
    if after == RAISE:
        if st == "ok":
            return [Violation(sig + " result=no-error", "history %s: model rejects `%s`, interpreter accepted" % (case.steps[:n], case.steps[n - 1]), "raise", r.get("d"))]
        return []
    if st != "ok":
        return [Violation(sig + " result=" + str(st), "history %s: `%s` -> %s %s" % (case.steps[:n], case.steps[n - 1], st, r.get("e")), "ok", st)]
    out = []
    got_d = resort(canon_nan(norm(r["d"]["d"])))
    want_d = resort(dump_expected(after, start["default"]))
    if got_d != want_d:
        out.append(Violation(sig + " result=wrong-contents", "history %s: d is %s, model says %s" % (case.steps[:n], json.dumps(got_d), json.dumps(want_d)), want_d, got_d))
    if len(rs) > n:
        o = rs[n]
        if o.get("st") != "ok":
            out.append(Violation(sig + " result=observation-" + str(o.get("st")), "history %s: observation %s" % (case.steps[:n], o.get("e")), "ok", o.get("st")))
        else:
            got_o = canon_nan(norm(o["v"]))
            want_o = obs_expected(tier, after, start["default"])
            if got_o != want_o:
                # name the first differing probe key
                which = "len"
                try:
                    for i, (g, w) in enumerate(zip(got_o[1][1][1], want_o[1][1][1])):
                        if g != w:
                            rk = reps_for(tier)[i]
                            which = "probe=%s(%s)" % (REPS[rk][0], REPS[rk][1])
                            break
                except Exception:
                    pass
                out.append(Violation(sig + " result=wrong-observation " + which,
                                     "history %s: observations %s, model says %s" % (case.steps[:n], json.dumps(got_o)[:400], json.dumps(want_o)[:400]), want_o, got_o))
    return out


def tally(case, rs, extra):
    if case.meta["kind"] == "hist":
        extra["stmt:" + case.meta["hist"][-1][0]] += 1


# ---------------------------------------------------------------- grid part
GRID_FORMS = ["literal", "set", "dict", "unique", "frequencies", "count_distinct", "group_all", "keys", "values", "items", "len",
              "memoize", "eqrebuilt", "eqin", "memoize_var"]


def cases(tier):
    pool = QUICK_REPS if tier == "quick" else list(range(len(REPS)))
    maxlen = 3
    seqs = []
    for L in range(0, maxlen + 1):
        # quick tier: every pair over the quick representatives, triples over the first twelve of them
        for t in itertools.product(pool if (tier != "quick" or L < 3) else pool[:12], repeat=L):
            seqs.append(list(t))
    if tier != "quick":
        for t in itertools.product(QUICK_REPS[:14], repeat=4):
            seqs.append(list(t))
    for ks in seqs:
        srcs = [REPS[k][1] for k in ks]
        lit = "{%s}" % ", ".join("%s: %d" % (s, i + 1) for i, s in enumerate(srcs)) if ks else "{}"
        lst = "[%s]" % ", ".join(srcs)
        progs = {
            "literal": lit, "set": "set(%s)" % lst,
            "dict": "dict([%s])" % ", ".join("[%s, %d]" % (s, i + 1) for i, s in enumerate(srcs)),
            "unique": "unique(%s)" % lst, "frequencies": "frequencies(%s)" % lst, "count_distinct": "count_distinct(%s)" % lst,
            "group_all": "%s group_all id" % lst, "keys": "keys(%s)" % lit, "values": "values(%s)" % lit, "items": "items(%s)" % lit,
            "len": "len(%s)" % lit,
            "memoize": 'f := memoize(\\x -> (print("c"); 7)); [%s]' % ", ".join("f(%s)" % s for s in srcs),
            "eqrebuilt": "%s == {%s}" % (lit, ", ".join("%s: %d" % (REPS[alt_rep(k)][1], v) for k, v in final_pairs(ks))) if ks else "{} == {}",
            # `==` and key addressing agree on every pair: a == b exactly when b is found in {a: 0}
            # a memoized function of any arity: the argument TUPLE is the key - f(a, b), f([a, b]), f(a), f([a]), f() and f([]) are six entries
            "memoize_var": ('f := memoize(\\...a -> (print("c"); len(a))); [f(%s, %s), f([%s, %s]), f(%s), f([%s]), f(), f([])]' % (srcs[0], srcs[1], srcs[0], srcs[1], srcs[0], srcs[0])) if len(srcs) == 2 else "0",
            "eqin": "[%s]" % ", ".join("[%s == %s, %s in {%s: 0}]" % (a, b, b, a) for a in srcs for b in srcs),
        }
        for form in GRID_FORMS:
            if form == "eqin" and (len(ks) != 2 or any(REPS[k][0] in NAN_CLASSES for k in ks)):
                continue      # pairs only; NaN is a key equal to itself but not == to itself
            if form == "memoize_var" and len(ks) != 2:
                continue
            yield Case(progs[form], {"kind": "grid", "form": form, "ks": ks})


NAN_CLASSES = ("nan", "vnan", "lnan", "dnan")


def alt_rep(k):
    """another representative of the same class (the last one listed)"""
    c = REPS[k][0]
    return [i for i, r in enumerate(REPS) if r[0] == c][-1]


def final_pairs(ks):
    """(stored rep, final value) per class, in first-insertion order"""
    m = {}
    for i, k in enumerate(ks):
        c = REPS[k][0]
        if c in m:
            m[c][1] = i + 1
        else:
            m[c] = [k, i + 1]
    return [(rep, v) for rep, v in m.values()]


def multiset(xs):
    return sorted(json.dumps(x, sort_keys=True) for x in xs)


def judge_grid(case, rs):
    m = case.meta
    form, ks = m["form"], m["ks"]
    r = rs[0]
    st = r.get("st")
    sig = "C09 grid form=%s classes=%s" % (form, ",".join(sorted({REPS[k][0] for k in ks})))
    if st != "ok":
        return [Violation(sig + " result=" + str(st), "%s -> %s %s" % (case.steps[0], st, r.get("e")), "ok", st)]
    got = canon_nan(norm(r["v"]))
    pairs = final_pairs(ks)
    C = lambda k: fix_nan(REPS[k][2])
    ok = True
    want = None
    if form == "literal" or form == "dict":
        want = resort(["d", [[C(rep), cI(v)] for rep, v in pairs]])
        ok = resort(got) == want
    elif form == "set":
        want = resort(["d", [[C(rep), None] for rep, v in pairs]])
        ok = resort(got) == want
    elif form == "unique":
        want = ["l", [C(rep) for rep, v in pairs]]
        ok = got == want
    elif form == "frequencies":
        cnt = Counter(REPS[k][0] for k in ks)
        want = resort(["d", [[C(rep), cI(cnt[REPS[rep][0]])] for rep, v in pairs], cI(0)])
        ok = resort(got) == want
    elif form in ("count_distinct", "len"):
        want = cI(len(pairs))
        ok = got == want
    elif form == "group_all":
        groups = {}
        for k in ks:
            groups.setdefault(REPS[k][0], []).append(C(k))
        want = multiset(["l", g] for g in groups.values())
        ok = got[0] == "l" and multiset(got[1]) == want
    elif form == "keys":
        want = multiset(C(rep) for rep, v in pairs)
        ok = got[0] == "l" and multiset(got[1]) == want
    elif form == "values":
        want = multiset(cI(v) for rep, v in pairs)
        ok = got[0] == "l" and multiset(got[1]) == want
    elif form == "items":
        want = multiset(["l", [C(rep), cI(v)]] for rep, v in pairs)
        ok = got[0] == "l" and multiset(got[1]) == want
    elif form == "memoize":
        want = ["l", [cI(7)] * len(ks)]
        calls = (r.get("o") or "").count("c")
        ok = got == want and calls == len(pairs)
        if not ok:
            return [Violation(sig + " result=wrong-call-count", "%s: function body ran %d times for %d distinct keys" % (case.steps[0], calls, len(pairs)), len(pairs), calls)]
    elif form == "eqrebuilt":
        want = cI(1)
        ok = got == want
    elif form == "memoize_var":
        want = ["l", [cI(2), cI(1), cI(1), cI(1), cI(0), cI(1)]]
        calls = (r.get("o") or "").count("c")
        ok = got == want and calls == 6
        if not ok:
            return [Violation(sig + " result=memo-entries-collide", "%s gave %s with %d body runs; six distinct argument tuples" % (case.steps[0], json.dumps(got)[:120], calls), want, got)]
    elif form == "eqin":
        want = ["l", [["l", [cI(int(REPS[a][0] == REPS[b][0]))] * 2] for a in ks for b in ks]]
        ok = got == want
    if not ok:
        return [Violation(sig + " result=wrong-value", "%s gave %s, model says %s" % (case.steps[0], json.dumps(got)[:300], json.dumps(want)[:300]), want, got)]
    return []


def nontrivial(case, rs):
    ks = case.meta["ks"]
    return len({REPS[k][0] for k in ks}) < len(ks) or len(ks) >= 1


def bounds(tier):
    return {"search_depth": depth(tier) if tier == "quick" else "2 over every representative, 3 over the core representatives",
            "search_key_reps": [REPS[k][1] for k in reps_for(tier)], "search_core_reps": [REPS[k][1] for k in CORE_REPS], "search_ops": OPS,
            "start_states": [s["name"] for s in starts(tier)],
            "grid_pool": len(QUICK_REPS if tier == "quick" else REPS), "grid_max_len": "2 (quick reps), 3 (12 reps)" if tier == "quick" else "3 (all reps), 4 (14 reps)"}
