"""C16 - text and byte codecs round-trip and conversions are exact.

Exhaustive families: (A) every integer operand expression of the shared pool (both representations)
through str / $ / print / format strings in base 2, 8, 10, 16 / int(str) / number(str) and through
str_radix / int_radix in every base 2..36; (B) the decimal / scientific / p/q grammar through
`rational`; (C) every byte string up to a length bound through hex, base64, compress, utf8;
(D) every Unicode scalar value (thorough) through chr/ord; (E) every JSON-shaped value of depth <= 2
over an atom pool through json_encode/json_decode, as a literal, and through repr+eval.
Oracle: Python int/format, Fraction, binascii, base64, json; inverse-pair laws in the interpreter.
"""
import base64
import itertools
import json
import re
from fractions import Fraction

from ..canon import cI, cQ, cF, norm, resort, lit_str, lit_int
from ..core import Case, Violation
from ..pools import int_operands, iclass

PROP = "C16"
LEVEL = "exploration"
TECHNIQUE = "bounded exhaustive enumeration of integers x bases, decimal grammar, byte strings, Unicode scalars and JSON values on the real interpreter vs Python codecs"
RULE = ("each family is enumerated completely inside its bound; non-trivial = the reference defines a value; "
        "distinct by program text")
ASSUMPTIONS = ["Python's int formatting, Fraction, binascii, base64, json and str.encode are the reference codecs"]
SHARDED = True
DIG = "0123456789abcdefghijklmnopqrstuvwxyz"


def to_base(v, b):
    if v == 0:
        return "0"
    s = []
    a = abs(v)
    while a:
        s.append(DIG[a % b])
        a //= b
    return ("-" if v < 0 else "") + "".join(reversed(s))


DEC_RE = re.compile(r"^([+-]?)(\d*)(?:\.(\d*))?(?:[eE]([+-]?\d+))?$")


def ref_decimal(s):
    """exact value of a decimal/scientific string, or None when it is not of that form"""
    m = DEC_RE.match(s)
    if not m:
        return None
    sign, ip, fp, ex = m.groups()
    has_dot = "." in s.split("e")[0].split("E")[0]
    if ip == "" and (fp is None or fp == ""):
        return None
    fp = fp or ""
    val = Fraction(int((ip or "0") + fp), 10 ** len(fp))
    if ex:
        val *= Fraction(10) ** int(ex)
    return -val if sign == "-" else val


ATOMS = [(None, "null", "null"), (0, "0", "0"), (-1, "(-1)", "-1"), (2 ** 63 - 1, "9223372036854775807", "9223372036854775807"),
         (-2 ** 63, "(-9223372036854775808)", "-9223372036854775808"), (0.5, "0.5", "0.5"), (1e300, "1.0e300", "1e300"),
         ("", '""', '""'), ('a"\\\n', lit_str('a"\\\n'), json.dumps('a"\\\n')), ("é", '"é"', '"é"'),
         # 64-bit integers held in big representation (results of ^ and of arithmetic through a big intermediate): still integers in JSON
         (8, "((2^70+8)-2^70)", "8"), (3 ** 35, "(3^35)", str(3 ** 35)),
         # floats whose shortest rendering needs an exponent
         (1e-7, "1.0e-7", "1e-07"), (1.5e22, "1.5e22", "1.5e+22")]


def json_values(tier):
    """(python value, noulith literal, json text)"""
    atoms = ATOMS if tier != "quick" else [ATOMS[i] for i in (0, 1, 3, 4, 5, 6, 8, 9, 10, 11, 12, 13)]
    lvl1 = list(atoms)
    # containers of depth 1
    cont = []
    for L in (0, 1, 2):
        for combo in itertools.product(atoms, repeat=L):
            cont.append(([c[0] for c in combo], "[%s]" % ", ".join(c[1] for c in combo), "[%s]" % ",".join(c[2] for c in combo)))
    keys = [("", '""'), ("k", '"k"'), ("é", '"é"')]
    for L in (0, 1, 2):
        for ks in itertools.permutations(keys, L):
            for combo in itertools.product(atoms[:5] if L == 2 else atoms, repeat=L):
                d = {k[0]: c[0] for k, c in zip(ks, combo)}
                lit = "{%s}" % ", ".join("%s: %s" % (k[1], c[1]) for k, c in zip(ks, combo)) if L else "{}"
                txt = "{%s}" % ",".join("%s:%s" % (json.dumps(k[0], ensure_ascii=False), c[2]) for k, c in zip(ks, combo))
                cont.append((d, lit, txt))
    out = lvl1 + cont
    # depth 2: containers holding one container each
    sub = cont[::7] if tier != "quick" else cont[::41]
    for c in sub:
        out.append(([c[0]], "[%s]" % c[1], "[%s]" % c[2]))
        out.append(({"k": c[0]}, '{"k": %s}' % c[1], '{"k":%s}' % c[2]))
        out.append(([c[0], 0], "[%s, 0]" % c[1], "[%s,0]" % c[2]))
    return out


def float_texts(tier):
    """Decimal texts of finite floats: (text valid both as JSON and as a Noulith literal). Every short mantissa against every
    exponent in a window (with and without a decimal point, the two lexer routes), plus 17-digit shortest renderings of
    non-decimal values at several magnitudes and the extremes of the format."""
    out = []
    mants = ["1", "2", "3", "5", "7", "9", "17", "123", "4503599627370497", "9007199254740993"] if tier == "quick" else ["1", "2", "3", "4", "5", "6", "7", "8", "9", "17", "25", "123", "4503599627370497", "9007199254740993"]
    exps = range(-26, 27) if tier == "quick" else range(-45, 46)
    for m in mants:
        for e in exps:
            out.append("%se%d" % (m, e))
            if tier != "quick" or e % 3 == 0:
                out.append("%s.0e%d" % (m, e))
                out.append("%s.5e%d" % (m, e))
    vals = [1 / 3, 2 / 3, 0.1 + 0.2, 1e23, 8.41e21, 2 ** 0.5, 5e-324, 2.2250738585072014e-308, 2.225073858507201e-308, 1.7976931348623157e308, 9007199254740993.0, 0.1, 123456.789e3]
    for v in vals:
        for k in ((0, -31, 40, -300, 290) if tier != "quick" else (0, -31)):
            w = v * 10.0 ** k if k else v
            if w != w or w in (float("inf"), 0.0):
                continue
            t = repr(w)
            out.append(t.replace("e+", "e"))
            out.append("-" + t.replace("e+", "e"))
    seen = set()
    res = []
    for t in out:
        if t not in seen:
            seen.add(t)
            res.append(t)
    return res


def canon_json(v):
    if v is None:
        return None
    if isinstance(v, bool):
        return cI(int(v))
    if isinstance(v, int):
        return cI(v)
    if isinstance(v, float):
        return cF(v)
    if isinstance(v, str):
        return ["s", v]
    if isinstance(v, list):
        return ["l", [canon_json(x) for x in v]]
    if isinstance(v, dict):
        return ["d", [[["s", k], canon_json(x)] for k, x in v.items()]]
    raise TypeError(v)


def byte_strings(tier):
    if tier == "quick":
        yield b""
        for a in range(256):
            yield bytes([a])
        alpha = [0, 1, 65, 97, 127, 128, 191, 192, 194, 195, 169, 224, 237, 240, 244, 255, 239, 187]     # 239 187 191 = the byte-order mark
        for L in (2, 3):
            for t in itertools.product(alpha, repeat=L):
                yield bytes(t)
    else:
        yield b""
        for a in range(256):
            yield bytes([a])
        for a in range(256):
            for b in range(256):
                yield bytes([a, b])
        alpha = [0, 65, 128, 191, 194, 224, 237, 240, 244, 255, 160, 144, 239, 187]
        for t in itertools.product(alpha, repeat=3):
            yield bytes(t)
        for t in itertools.product([240, 244, 144, 143, 128, 191, 65], repeat=4):
            yield bytes(t)


def bounds(tier):
    return {"int_operands": len(int_operands(tier)), "bases": "2..36",
            "byte_strings": "len<=1 all, len 2..3 over 16 symbols" if tier == "quick" else "len<=2 all, len 3 over 12 symbols, len 4 over 7 symbols",
            "unicode": "boundary neighbourhoods" if tier == "quick" else "every scalar value 0..0x10FFFF plus surrogates and beyond",
            "json_values": len(json_values(tier)), "float_texts": len(float_texts(tier)),
            "long_inputs": "sizes 0..70000 (quick) / ..262145 (thorough) around 4K/8K/32K/64K/128K x {zeros, ramp, incompressible}"}


def cases(tier, shard, nshards):
    n = 0
    # ---------- A: integers
    for (v, src, route) in int_operands(tier):
        n += 1
        if n % nshards != shard:
            continue
        sv = str(v)
        meta = {"f": "int", "v": sv, "route": route}
        fsrc = src.replace('"', "'")  # inside an F"..." body
        yield Case("str(%s)" % src, dict(meta, op="str"))
        yield Case("$(%s)" % src, dict(meta, op="str"))
        yield Case('F"{%s}"' % fsrc, dict(meta, op="str"))
        yield Case("print(%s)" % src, dict(meta, op="print"))
        yield Case('F"{%s #x}"' % fsrc, dict(meta, op="fmt", base=16))
        yield Case('F"{%s #X}"' % fsrc, dict(meta, op="fmtX", base=16))
        yield Case('F"{%s #b}"' % fsrc, dict(meta, op="fmt", base=2))
        yield Case('F"{%s #o}"' % fsrc, dict(meta, op="fmt", base=8))
        yield Case("int(str(%s)) == %s" % (src, src), dict(meta, op="law"))
        yield Case("number(str(%s)) == %s" % (src, src), dict(meta, op="law"))
        yield Case('int("%d")' % v, dict(meta, op="parse"))
        yield Case('number("%d")' % v, dict(meta, op="parse"))
        yield Case('rational("%d")' % v, dict(meta, op="parse_q"))
        yield Case("repr(%s)" % src, dict(meta, op="str"))
        yield Case("eval(repr(%s))" % src, dict(meta, op="parse"))
        for b in range(2, 37):
            yield Case("str_radix(%s, %d)" % (src, b), dict(meta, op="radix", base=b))
            if v >= 0:
                yield Case("int_radix(str_radix(%s, %d), %d) == %s" % (src, b, b, src), dict(meta, op="law"))
                yield Case('int_radix("%s", %d)' % (to_base(v, b), b), dict(meta, op="parse"))
                yield Case('int_radix("%s", %d)' % (to_base(v, b).upper(), b), dict(meta, op="parse"))
            if b in (2, 10, 16, 36):
                # the base itself held in big representation: a base is a value, not a representation
                bb = "((2^70+%d)-2^70)" % b
                yield Case("str_radix(%s, %s)" % (src, bb), dict(meta, op="radix", base=b))
                if v >= 0:
                    yield Case('int_radix("%s", %s)' % (to_base(v, b), bb), dict(meta, op="parse"))
    # ---------- B: decimal grammar
    signs = ["", "-", "+"]
    ints = ["", "0", "7", "12", "007"]
    fracs = [None, ".", ".0", ".5", ".25", ".125", ".10"]
    exps = [None, "e0", "e1", "e-1", "E2", "e+2", "e-3"]
    toks = []
    for s in signs:
        for i in ints:
            for f in fracs:
                for e in exps:
                    toks.append(s + i + (f or "") + (e or ""))
    for t in toks:
        n += 1
        if n % nshards != shard:
            continue
        yield Case('rational("%s")' % t, {"f": "dec", "s": t})
        yield Case('rational(" %s ")' % t, {"f": "dec", "s": t})
    sub = [t for t in toks if ref_decimal(t) is not None][:: (9 if tier == "quick" else 2)]
    subq = ["1", "2", "-3", "0", "0.5", "1e1", "-.25", "+4", "00", "2.50"]
    for p in sub:
        for q in subq:
            n += 1
            if n % nshards != shard:
                continue
            yield Case('rational("%s/%s")' % (p, q), {"f": "pq", "p": p, "q": q})
    # ---------- C: byte strings
    for bs in byte_strings(tier):
        n += 1
        if n % nshards != shard:
            continue
        lit = "B[%s]" % ",".join(map(str, bs))
        meta = {"f": "bytes", "b": list(bs)}
        yield Case("hex_encode(%s)" % lit, dict(meta, op="hex"))
        yield Case("hex_decode(hex_encode(%s)) == %s" % (lit, lit), dict(meta, op="law"))
        yield Case('hex_decode("%s")' % bs.hex(), dict(meta, op="unhex"))
        yield Case('hex_decode("%s")' % bs.hex().upper(), dict(meta, op="unhex"))
        yield Case("base64_encode(%s)" % lit, dict(meta, op="b64"))
        yield Case("base64_decode(base64_encode(%s)) == %s" % (lit, lit), dict(meta, op="law"))
        yield Case('base64_decode("%s")' % base64.b64encode(bs).decode(), dict(meta, op="unb64"))
        yield Case("utf8_decode(%s)" % lit, dict(meta, op="utf8"))
        if len(bs) <= 2 or bs[0] % 3 == 0:
            yield Case("decompress(compress(%s)) == %s" % (lit, lit), dict(meta, op="law"))
        try:
            s = bs.decode("utf-8")
            if "\x00" not in s and all(ch.isprintable() for ch in s):
                yield Case("utf8_encode(%s)" % lit_str(s), dict(meta, op="enc"))
            yield Case("utf8_encode(utf8_decode(%s)) == %s" % (lit, lit), dict(meta, op="law"))
        except UnicodeDecodeError:
            pass
    # ---------- D: chr / ord
    if tier == "quick":
        cps = set()
        for c in (0, 0x7f, 0x80, 0x7ff, 0x800, 0xd7ff, 0xd800, 0xdfff, 0xe000, 0xfffd, 0xffff, 0x10000, 0x10ffff, 0x110000, 2 ** 31, 2 ** 32, 2 ** 64):
            for d in range(-3, 4):
                if c + d >= 0:
                    cps.add(c + d)
        cps.update(range(0, 0x300))
        cps = sorted(cps)
    else:
        cps = itertools.chain(range(0, 0x110000 + 16), [2 ** 31 - 1, 2 ** 31, 2 ** 32 - 1, 2 ** 32, 2 ** 32 + 65, 2 ** 63, 2 ** 64 + 65, -1, -65])
    for cp in cps:
        n += 1
        if n % nshards != shard:
            continue
        yield Case("c := chr(%s); [c, ord(c)]" % lit_int(cp), {"f": "chr", "cp": str(cp)})
    # ---------- E0: JSON texts with escapes / whitespace / exponent forms, decode only
    texts = ['"\\u00e9"', '"\\ud83d\\ude00"', '"a\\tb\\/c\\b\\f\\r"', ' [ 1 , 2 ] ', '{ "a" : { "b" : [ ] } }', '1E2', '1.5e-3', '[[],[[]]]', '"\\u0041\\u0000"',
             '123456789012345678', '-9223372036854775808', '0.1', '[true, false, null]', '{"a": 1, "a": 2}']
    for t in texts:
        n += 1
        if n % nshards != shard:
            continue
        try:
            v = json.loads(t)
        except ValueError:
            continue
        yield Case("json_decode(%s)" % lit_str(t), {"f": "json", "v": v, "op": "literal"})
        yield Case("json_decode(json_encode(json_decode(%s)))" % lit_str(t), {"f": "json", "v": v, "op": "literal"})
    # ---------- F: finite floats as decimal text (literal route, JSON route, and the round trips)
    for t in float_texts(tier):
        n += 1
        if n % nshards != shard:
            continue
        v = float(t)
        lit = "(%s)" % t
        meta = {"f": "json", "v": v, "flt": 1}
        yield Case(lit, dict(meta, op="literal"))
        yield Case("json_decode(%s)" % lit_str(t), dict(meta, op="literal"))
        yield Case("json_decode(%s)" % lit_str(t.replace("e", "E")), dict(meta, op="literal"))
        yield Case("json_decode(json_encode(%s)) == %s" % (lit, lit), dict(meta, op="law"))
        yield Case("json_decode(json_encode(%s))" % lit, dict(meta, op="literal"))
        yield Case("eval(repr(%s))" % lit, dict(meta, op="literal"))
        yield Case("json_decode(%s) == %s" % (lit_str(t), lit), dict(meta, op="law"))
    # ---------- G: long inputs around the chunk sizes of the streaming codecs (4 KiB, 8 KiB, 32 KiB, 64 KiB, 128 KiB), three contents
    #             (constant, periodic, incompressible multiplicative hash): every inverse pair at once
    sizes = [0, 1, 255, 256, 4095, 4096, 4097, 8191, 8192, 8193, 32767, 32768, 32769, 40000, 65535, 65536, 65537, 70000]
    if tier != "quick":
        sizes += [100000, 131071, 131072, 131073, 200000, 262145]
    for N in sizes:
        for kind, gen in (("zeros", "bytes(0 .* %d)" % N), ("ramp", "bytes((0 til %d) map (%% 251))" % N),
                          ("mix", "bytes((0 til %d) map (\\i -> ((i * 2654435761) %% 4294967296 // 16777216 + (i * i * 40503) %% 65536 // 256) %% 256))" % N)):
            n += 1
            if n % nshards != shard:
                continue
            prog = ("b := %s; c := decompress(compress(b)); s := utf8_decode(bytes(b map (\\q -> 32 + q %% 90))); "
                    "[len(b), c == b, len(c), base64_decode(base64_encode(b)) == b, hex_decode(hex_encode(b)) == b, utf8_encode(s) == bytes(b map (\\q -> 32 + q %% 90)), "
                    "json_decode(json_encode(s)) == s, len(s)]") % gen
            yield Case(prog, {"f": "long", "N": N, "kind": kind}, opts={"fuel": 50000000, "step_ms": 60000, "compact": True, "cap": 4})
    # ---------- H: JSON round trip of strings, character by character: every code point below 0x300 (all C0 / C1 controls, DEL, quotes,
    #             backslash) and the special ones beyond (combining marks, zero-width and line/paragraph separators, BOM, the last BMP
    #             and the first / last astral scalar), alone, doubled and next to a letter; top level, in a list and as a dict key
    cps = list(range(0, 0x300)) + [0x301, 0x200b, 0x200d, 0x2028, 0x2029, 0xd7ff, 0xe000, 0xfeff, 0xfffd, 0xffff, 0x10000, 0x1f600, 0x10ffff]
    if tier == "quick":
        cps = [c for c in cps if c < 0xa2 or c >= 0x2f0]
    for cp in cps:
        n += 1
        if n % nshards != shard:
            continue
        for mk in ("chr(%d)" % cp, '("a" $ chr(%d) $ chr(%d))' % (cp, cp), '(chr(%d) $ chr(92) $ chr(34))' % cp):
            yield Case("s := %s; [json_decode(json_encode(s)) == s, json_decode(json_encode([s, 1])) == [s, 1], json_decode(json_encode({s: s})) == {s: s}, "
                       "len(json_decode(json_encode(s))) == len(s)]" % mk, {"f": "jstr", "cp": cp}, opts={"compact": True})
    # ---------- E: JSON-shaped values
    for (v, lit, txt) in json_values(tier):
        n += 1
        if n % nshards != shard:
            continue
        meta = {"f": "json", "v": v}
        yield Case(lit, dict(meta, op="literal"))
        yield Case("json_decode(%s)" % lit_str(txt), dict(meta, op="literal"))
        yield Case("json_decode(json_encode(%s)) == %s" % (lit, lit), dict(meta, op="law"))
        yield Case("json_decode(json_encode(%s))" % lit, dict(meta, op="literal"))
        yield Case("eval(repr(%s))" % lit, dict(meta, op="literal"))
        yield Case("json_decode(%s) == %s" % (lit_str(txt), lit), dict(meta, op="law"))
        yield Case("json_decode(json_encode(json_decode(%s)))" % lit_str(txt), dict(meta, op="literal"))


def nontrivial(case, rs):
    return rs[0].get("st") == "ok"


def expect(m):
    """-> ('v', canon) | ('out', text) | 'raise' | None"""
    f = m["f"]
    if f == "int":
        v = int(m["v"])
        op = m["op"]
        if op == "str":
            return ("v", ["s", str(v)])
        if op == "print":
            return ("out", str(v) + "\n")
        if op == "fmt":
            return ("v", ["s", to_base(v, m["base"])])
        if op == "fmtX":
            return ("v", ["s", to_base(v, 16).upper()])
        if op == "law":
            return ("v", cI(1))
        if op == "parse":
            return ("v", cI(v))
        if op == "parse_q":
            return ("v", cQ(v))
        if op == "radix":
            return ("v", ["s", to_base(v, m["base"])])
    if f == "dec":
        val = ref_decimal(m["s"])
        if val is None:
            return None  # malformed input: must not crash (C14); whether it raises is not asserted
        return ("v", cQ(val))
    if f == "pq":
        p, q = ref_decimal(m["p"]), ref_decimal(m["q"])
        if q == 0:
            return "raise"
        return ("v", cQ(p / q))
    if f == "bytes":
        bs = bytes(m["b"])
        op = m["op"]
        if op == "hex":
            return ("v", ["s", bs.hex()])
        if op in ("unhex", "unb64"):
            return ("v", ["b", list(bs)])
        if op == "b64":
            return ("v", ["s", base64.b64encode(bs).decode()])
        if op == "law":
            return ("v", cI(1))
        if op == "enc":
            return ("v", ["b", list(bs)])
        if op == "utf8":
            try:
                return ("v", ["s", bs.decode("utf-8")])
            except UnicodeDecodeError:
                return "raise"
    if f == "chr":
        cp = int(m["cp"])
        if 0 <= cp < 0x110000 and not (0xd800 <= cp <= 0xdfff):
            return ("v", ["l", [["s", chr(cp)], cI(cp)]])
        return "raise"
    if f == "jstr":
        return ("v", ["l", [cI(1)] * 4])
    if f == "long":
        N = m["N"]
        return ("v", ["l", [cI(N), cI(1), cI(N), cI(1), cI(1), cI(1), cI(1), cI(N)]])
    if f == "json":
        if m["op"] == "law":
            return ("v", cI(1))
        return ("v", canon_json(m["v"]))
    return None


def sigof(m):
    f = m["f"]
    if f == "int":
        return "C16 int op=%s%s class=%s" % (m["op"], (" base=%s" % m["base"]) if m.get("base") in (2, 8, 16) else (" base=other" if "base" in m else ""), iclass(int(m["v"])))
    if f == "dec":
        s = m["s"]
        return "C16 rational(decimal) sign=%s frac=%s exp=%s" % (("neg" if s.startswith("-") else "pos"), "." in s, "e" in s.lower())
    if f == "pq":
        return "C16 rational(p/q)"
    if f == "bytes":
        return "C16 bytes op=%s len=%d" % (m["op"], len(m["b"]))
    if f == "chr":
        cp = int(m["cp"])
        return "C16 chr/ord range=%s" % ("surrogate" if 0xd800 <= cp <= 0xdfff else "beyond" if cp >= 0x110000 or cp < 0 else "bmp" if cp < 0x10000 else "astral")
    if f == "jstr":
        cp = m["cp"]
        return "C16 json string round trip char=%s" % ("control" if cp < 32 or 0x7f <= cp < 0xa0 else "ascii" if cp < 0x80 else "latin" if cp < 0x300 else "special")
    if f == "long":
        return "C16 long input kind=%s size=%s" % (m["kind"], "<=8193" if m["N"] <= 8193 else "<=32769" if m["N"] <= 32769 else ">32769")
    if f == "json":
        return "C16 json op=%s%s" % (m["op"], " float-text" if m.get("flt") else "")
    return "C16 ?"


def judge(case, rs):
    m = case.meta
    r = rs[0]
    st = r.get("st")
    exp = expect(m)
    src = case.steps[0]
    if exp is None:
        return []
    sig = sigof(m)
    if exp == "raise":
        if st == "ok":
            return [Violation(sig + " result=no-error", "%s gave %s, reference raises" % (src, r.get("v")), "raise", r.get("v"))]
        return []  # crash-instead-of-error belongs to C14
    if st != "ok":
        return [Violation(sig + " result=" + st, "%s: expected %s, status %s %s" % (src, exp, st, (r.get("e") or "")[:200]), exp, st)]
    if exp[0] == "out":
        if r.get("o") != exp[1]:
            return [Violation(sig + " result=wrong-output", "%s printed %r, expected %r" % (src, r.get("o"), exp[1]), exp[1], r.get("o"))]
        return []
    got = resort(norm(r.get("v")))
    want = resort(exp[1])
    if got != want:
        return [Violation(sig + " result=wrong-value", "%s gave %s, expected %s" % (src, json.dumps(got)[:300], json.dumps(want)[:300]), want, got)]
    return []
