"""C14 - every failure is a catchable error, never a crash, and try/catch contains it.

Fault enumeration: (a) every callable of the global environment (listed from the engine at run
time, so new builtins are covered by default; effectful ones skipped by an explicit list) applied to
every tuple of 0, 1, 2 arguments over a pool of all value kinds and boundary values, and 3
arguments over a sub-pool; (b) statement templates (index/slice/field assignment, op-assignment,
pop/remove, unpacking around splats, annotations, swap, switch, for, calls of non-functions ...)
with every hole filled from the pool. Each case runs as
    y := [1, [2]]; r := try (CASE; "ok") catch e -> "caught"; [r, y, 1 + 1]
Oracle: the program ends with a value (["ok"|"caught", [1, [2]], 2]); panic / abort / hang are
violations unless the case is resource-bound (an infinite stream or a huge size argument).
"""
import itertools
import json
import re

from ..core import Case, Violation
from .. import engine as E

PROP = "C14"
LEVEL = "fault_enumeration"
TECHNIQUE = "exhaustive fault enumeration: every global callable x every argument tuple over a value-kind pool, and every statement template x pool fillings, on the real interpreter with panic/abort/hang capture"
RULE = ("every (callable, argument tuple) with 0..2 arguments over the pool and 3 over the sub-pool, and every statement template filling, "
        "is run once; non-trivial = the call raised or returned a non-null value; distinct by program text")
ASSUMPTIONS = ["effectful builtins (files, processes, clock, sleep, stdin, randomness) are excluded by name",
               "cases with an infinite-stream argument or a huge integer/float argument are resource-bound: hang/abort/allocation failure there is tallied, not a verdict"]
SHARDED = True

SKIP = {"append_file", "write_file", "read_file", "read_file?", "read_file_bytes", "read_file_bytes?", "read", "read_bytes",
        "read_compressed", "list_files", "run_process", "input", "interact", "interact_lines", "sleep", "now", "time",
        "random", "random_bytes", "random_range", "shuffle", "choose", "flush", "debug", "__internal_debug", "vars"}

POOL = [
    ("null", "null"), ("int0", "0"), ("int1", "1"), ("intneg", "(-1)"), ("int2", "2"),
    ("i64max", "9223372036854775807"), ("i64min", "(-9223372036854775808)"), ("bigint", "(2^64)"), ("bigrep2", "((2^70+2)-2^70)"),
    ("rational", "(1/2)"), ("float", "0.5"), ("negzero", "(-0.0)"), ("inf", "(1.0/0.0)"), ("nan", "(0.0/0.0)"), ("complex", "(1+2i)"),
    ("emptystr", '""'), ("str", '"a"'), ("uchar", '"é"'), ("chhi", "'\\u{e000}'"), ("ustr", '"héllo wörld"'),
    # long enough to be abbreviated wherever a value is rendered into a message, with 3-byte and 2-byte characters at every small byte offset
    ("longu", '"日本語のテキストαβγ"'),
    ("emptylist", "[]"), ("list", "[1, 2, 3]"), ("nested", "[[1, 2], [3]]"), ("mixed", '[1, "a", null]'),
    ("emptydict", "{}"), ("dict", '{1: 2, "a": [3]}'), ("defdict", "{:0}"), ("dictfn", "{1: len, 2: [1 to 3]}"),
    ("vector", "V(1, 2)"), ("emptybytes", "B[]"), ("badutf8", "B[255, 0, 65]"),
    ("stream", "(1 to 3)"), ("emptystream", "(1 to 0)"), ("infstream", "iota(1)"),
    ("builtin", "(+)"), ("closure", "(\\x -> x)"), ("type", "int"), ("instance", "Foo(1, [2])"),
]
RISKY = {"i64max", "i64min", "bigint", "inf", "infstream"}
QUICK = ["null", "int0", "intneg", "bigrep2", "i64max", "i64min", "rational", "nan", "str", "uchar", "longu", "emptylist", "list", "dict", "dictfn", "vector", "badutf8",
         "stream", "infstream", "closure"]
SUB3 = ["null", "int0", "intneg", "int2", "float", "str", "uchar", "emptylist", "list", "dict", "stream", "closure", "i64min"]
SUB3_QUICK = ["int0", "str", "list", "closure", "null"]     # (the three-hole pool of the quick tier also gets i64max, dict, uchar, ustr, stream - see cases())
# a lazily built result is measured (len, truthiness, last index, slices) and advanced (up to 40 elements) inside the try: a stream that can only fail when consumed has not "ended with a value"
PRE = ["struct Foo (a, b)", "force_ := \\v -> (if (v is stream) (try len(v) catch _ -> 0; try (not v) catch _ -> 0; try v[1:2] catch _ -> 0; try (if (len(v) < 1000) [v[-1], v[-2:]]) catch _ -> 0; list(v take 40)) else v)"] + ["p_%s := %s" % (n, s) for n, s in POOL]

TEMPLATES = [
    ("index", "{A}[{B}]", 2), ("slice", "{A}[{B}:{C}]", 3), ("slice_open", "{A}[{B}:]", 2),
    ("index_assign", "x := {A}; x[{B}] = {C}", 3), ("index_opassign", "x := {A}; x[{B}] += {C}", 3),
    ("index2_assign", "x := {A}; x[{B}][{B}] = {C}", 3), ("append_assign", "x := {A}; x append= {B}", 2),
    ("slice_assign", "x := {A}; x[{B}:{C}] = {A}", 3), ("every_slice", "x := {A}; every x[{B}:{C}] = 0", 3),
    ("every_slice_op", "x := {A}; every x[{B}:] += {C}", 3),
    ("update", "x := {A}; x{{{B} = {C}}}", 3), ("pop", "x := {A}; pop x", 1), ("pop_index", "x := {A}; pop x[{B}]", 2),
    ("remove", "x := {A}; remove x[{B}]", 2), ("remove_slice", "x := {A}; remove x[{B}:{C}]", 3),
    ("consume", "x := {A}; y0 := consume x; x", 1),
    ("unpack2", "a, b := {A}", 1), ("unpack_splat", "a, ...b := {A}", 1), ("unpack_splat_mid", "a, ...b, c := {A}", 1),
    ("unpack_splat_front", "...a, b, c := {A}", 1), ("unpack_nested", "a, (b, c) := {A}", 1), ("unpack_default", "a, b = 5 := {A}", 1),
    ("assign_undeclared", "zz = {A}", 1), ("annot_int", "x: int = {A}", 1), ("annot_list", "x: list = {A}", 1),
    ("annot_then", "x: str = \"\"; x = {A}", 1), ("annot_op", "x: int = 1; x += {A}", 1),
    ("swap", "x := {A}; z := {B}; swap x, z; [x, z]", 2), ("swap_index", "x := {A}; swap x[{B}], x[{C}]", 3),
    ("for", "for (q <- {A}) q", 1), ("for_kv", "for (k, v <<- {A}) [k, v]", 1), ("for_yield", "for (q <- {A}; w <- {B}) yield [q, w]", 2),
    ("if", "if ({A}) 1 else 2", 1), ("and", "{A} and {B}", 2), ("coalesce", "{A} coalesce {B}", 2), ("not", "not {A}", 1),
    ("neg", "-{A}", 1), ("call1", "{A}({B})", 2), ("call2", "{A}({B}, {C})", 3), ("call_splat", "{A}(...{B})", 2),
    ("juxtapose", "{A} {B}", 2), ("dot", "{A}.{B}", 2), ("bang", "{A} ! {B}", 2),
    ("switch_lit", "switch ({A}) case 1 -> 1 case \"a\" -> 2 case null -> 3", 1),
    ("switch_annot", "switch ({A}) case _: int -> 1 case _: list -> 2 case [] -> 3", 1),
    ("switch_seq", "switch ({A}) case a, b -> 1 case a, -> 2 case h .+ t -> 3", 1),
    ("switch_op", "switch ({A}) case n + 1 -> n case -n -> n case a / b -> a", 1),
    ("throw", "throw {A}", 1), ("try_typed", "try throw {A} catch q: int -> 1", 1), ("is", "{A} is {B}", 2),
    ("str", "$({A})", 1), ("repr_eval", "eval(repr({A}))", 1), ("fmt", "{A} $ {B}", 2), ("in", "{A} in {B}", 2),
    ("dictlit", "{{{A}: {B}}}", 2), ("setlit", "{{{A}, {B}}}", 2), ("listsplat", "[...{A}, ...{B}]", 2),
    ("lambda_params", "(\\a, b -> a)(...{A})", 1), ("lambda_pattern", "(\\[a, b] -> a)({A})", 1),
    ("struct_new", "Foo({A})", 1), ("struct_new2", "Foo({A}, {B}, {C})", 3), ("struct_field", "q := Foo({A}, {B}); q[a]", 2),
    ("struct_assign", "q := Foo(1, 2); q[a] = {A}; q[{B}] = 1", 2),
    ("compare_chain", "{A} < {B} <= {C}", 3), ("arith_chain", "{A} + {B} * {C}", 3), ("divmod", "[{A} // {B}, {A} % {B}, {A} %% {B}, {A} /! {B}]", 2),
    ("pow", "{A} ^ {B}", 2), ("shift", "[{A} << {B}, {A} >> {B}]", 2), ("range", "force_({A} til {B} by {C})", 3), ("range_to", "force_({A} to {B} by {C})", 3), ("range_list", "list({A} to {B})", 2),
    ("range_unpack", "a, b := {A} til {B} by {C}", 3), ("range_only", "only({A} to {B} by {C})", 3), ("range_zip", "({A} til {B} by {C}) zip [1, 2]", 3),
    ("range_in", "{A} in ({B} til {C})", 3), ("str_range_gap", "'\\u{{d7ff}}' to {A}", 1), ("str_range_gap2", "{A} til '\\u{{e000}}'", 1),
    # the documented internal stack keywords on stacks that are too short / with arguments of every kind
    ("internal_call1", "__internal_call 1 {A}", 1), ("internal_call2", "__internal_push {A}; __internal_call 2 {B}", 2),
    ("internal_call3", "__internal_push {A}; __internal_push {B}; __internal_call 3 {A}", 2), ("internal_peek", "__internal_push {A}; __internal_peek 1", 1),
    ("internal_peek_set", "__internal_peek 0 = {A}", 1), ("internal_peek_op", "__internal_push {A}; __internal_peek 1 += {B}", 2),
    ("internal_pop", "__internal_push {A}; __internal_pop; __internal_pop", 1), ("internal_frame", "__internal_frame (__internal_push {A}; __internal_pop; __internal_pop)", 1),
    ("internal_for", "__internal_for ({A}) (__internal_peek 1)", 1), ("internal_lambda", "f := __internal_lambda 1 (__internal_peek 1); f({A})", 1),
    ("internal_lambda_args", "f := __internal_lambda 2 (__internal_call 3 {A}); f({B})", 2),
    ("str_range_gap3", "'\\u{{d7fe}}' to '\\u{{e001}}'", 0), ("iota_by", "force_(iota({A}, {B}))", 2),
    ("precedence", "f := \\a, b -> a; f::precedence = {A}; 1 f 2", 1), ("freeze", "freeze (\\q -> q + {A})", 1),
    # every builtin that can stand in a pattern (src/lib.rs fn destructure: + - * / comparisons +. .+), with the known operand and
    # the matched value of every kind, as a declaration and as a switch arm
    ("pat_add_l", "(literally {A}) + pa_ := {B}; pa_", 2), ("pat_add_r", "pa_ + (literally {A}) := {B}; pa_", 2),
    ("pat_mul_l", "(literally {A}) * pa_ := {B}; pa_", 2), ("pat_mul_r", "pa_ * (literally {A}) := {B}; pa_", 2),
    ("pat_sub_l", "(literally {A}) - pa_ := {B}; pa_", 2), ("pat_sub_r", "pa_ - (literally {A}) := {B}; pa_", 2),
    ("pat_neg", "-pa_ := {A}; pa_", 1), ("pat_div", "pa_ / pb_ := {A}; [pa_, pb_]", 1), ("pat_div_lit", "pa_ / (literally {A}) := {B}; pa_", 2),
    ("pat_cmp", "(literally {A}) < pa_ := {B}; pa_", 2), ("pat_cmp3", "(literally {A}) <= pa_ < (literally {C}) := {B}; pa_", 3),
    ("pat_snoc", "pa_ +. pb_ := {A}; [pa_, pb_]", 1), ("pat_cons", "pa_ .+ pb_ := {A}; [pa_, pb_]", 1),
    ("pat_snoc_lit", "pa_ +. (literally {A}) := {B}; pa_", 2), ("pat_cons_lit", "(literally {A}) .+ pa_ := {B}; pa_", 2),
    ("pat_switch_mul", "switch ({B}) case (literally {A}) * pa_ -> pa_ case pa_ * 2 -> pa_ case _ -> 0", 2),
    ("pat_switch_add", "switch ({B}) case (literally {A}) + pa_ -> pa_ case -pa_ -> pa_ case _ -> 0", 2),
    ("pat_assign_mul", "pa_ := 0; (literally {A}) * pa_ = {B}; pa_", 2),
    # the remaining expression kinds (Expr variants of src/core.rs): format strings with every flag, while, yield into / yield k: v,
    # symbol access, struct definitions with defaults, dict defaults, `literally` patterns, freeze of a value, every-/tuple-/op-assignment
    # with an arbitrary value as the operator, backtick calls
    ("fmt_hex", "F'{{{A} #x}} {{{A} #X}}'", 1), ("fmt_bin_pad", "F'{{{A} #b 012}}'", 1), ("fmt_center", "F'{{{A} #^7}}{{{B} #<7o}}{{{A} #>3d}}'", 2),
    ("fmt_wide", "F'{{{A} #99999}}'", 1), ("fmt_nested", "F'{{F\"{{{A}}}\" #5}}'", 1),
    ("while_break", "while ({A}) break", 1), ("while_body", "n9 := 0; while (n9 < 2) (n9 += 1; {A}({B}))", 2),
    ("yield_into", "for (q <- {A}) yield q into {B}", 2), ("yield_kv", "for (q <- {A}) yield q: {B}", 2), ("yield_kv_into", "for (k, v <<- {A}) yield v: k into {B}", 2),
    ("symbol_access", "{A}::a", 1), ("symbol_assign", "x := {A}; x::a = {B}; x", 2), ("struct_default", "struct S9 (b9, a9 = {A}); [S9({B}), S9({B}, {C})]", 3),
    ("dict_default", "{{:{A}, {B}: {C}}}", 3), ("dict_default_get", "d9 := {{:{A}}}; [d9[{B}], d9 !? {B}, d9]", 2),
    ("literally_switch", "switch ({A}) case (literally {B}) -> 1 case _ -> 0", 2), ("freeze_val", "freeze {A}", 1),
    ("every_assign", "x := {A}; every x = {B}; x", 2), ("tuple_assign", "x := {A}; z := 0; x, z = {B}; [x, z]", 2),
    ("op_assign_val", "x := {A}; x {B}= {C}; x", 3), ("backtick", "{A} `{B}` {C}", 3), ("try_pattern", "try throw {A} catch [q, w] -> q catch q -> 0", 1),
    ("try_literally", "try throw {A} catch (literally {B}) -> 1", 2), ("annot_value", "x: {A} = {B}", 2), ("annot_satisfying", "x: satisfying({A}) = {B}", 2),
]


TOK_PRE = ["x := [1, 2]", "f := \\a, b -> a"]
ADDRESSING = {"index", "slice", "slice_open", "index_assign", "index_opassign", "index2_assign", "slice_assign", "every_slice", "every_slice_op",
              "update", "pop_index", "remove", "remove_slice", "swap_index"}


# ---- a caught error leaves no trace: SETUP; try FAIL catch _ -> null; OBSERVE  ==  SETUP; OBSERVE   (differential, no expected values)
AFT_SETUP = ('struct Foo (a, b); x := [1, [2], 3]; d := {1: [2], "k": 3}; s := "héllo"; q := Foo(1, [2]); v := V(1, 2); st := 1 to 3; n := 5; '
             'g := \\w -> (x[0] += w; w); cnt := 0; mf := memoize(\\w -> (if (w == 2) throw w else w)); __internal_push 10; __internal_push 20; '
             'il := __internal_lambda 1 (throw (__internal_peek 0)); ')
AFT_OBSERVE = ('[x, d, s, q, v, list(st), n, cnt, __internal_peek 0, __internal_peek 1, mf(1), try mf(2) catch e_ -> ["c", e_], g(0), len(x), '
               '(\\t -> t + 1)(1), for (i_ <- x) yield i_, d !? 1, x == [1, [2], 3]]')
AFT_FAILS = [
    "throw 1", "il(5)", "il(5, 6)", "x[9] = 1", "x[1][5] = 1", "d[7] += 1", 'd["k"][0] = 1', "1 // 0", "(\\a_ -> a_)(1, 2)", "a_, b_ := [1]", "a_, ...b_, c_ := [1]",
    "[1, 2] map (\\w -> throw w)", 'sort([1, "a"])', "[3, 1, 2] sort (\\a_, b_ -> throw a_)", "[1, 2, 3] fold (\\a_, b_ -> throw b_)",
    "for (i_ <- [1, 2, 3]) (cnt2 := i_; if (i_ == 2) throw i_)", "for (i_ <- [1, 2, 3]) yield (if (i_ == 2) throw i_ else i_)",
    "switch (5) case 1 -> 0", "Foo(1)", "q[zz] = 1", "v[5] = 1", 's[0] = "é"', 's[1] = "z"', "pop []", "remove x[9]", "st[9]", "null + 1", "mf(2)",
    "(\\ -> (__internal_push 99; throw 1))()", "__internal_frame (__internal_push 99; throw 1)", "__internal_for ([1, 2]) (throw (__internal_peek 0))",
    "x[0] = (throw 1)", "every x[0:2] = (throw 1)", "swap x[0], x[9]", "x, n = [1], (throw 2)", "eval(\"1 +\")", "eval(\"throw 3\")", "freeze (\\ -> zzz)",
    "int(\"zz\")", "json_decode(\"{\")", "chr(-1)", "[1, 2][1.5]", "1 < \"a\"", "{[1 to 2]: 1}", "first([])", "(1 to 3)[5]", "x . zz",
    "for (i_ <- 1 to 3) for (j_ <- 1 to 3) (if (j_ == 2) throw [i_, j_])", "while (1) (cnt3 := 1; throw 1)", "try (throw 1) catch 2 -> 0",
]


# ---- regular-expression builtins: every (function form, pattern, subject) of three small pools
RE_PATTERNS = ["(a)?b", "(a)|(b)", "a*", "(a)(b)?", "()", "(?:a)(b)?", "[", "(", "a{2,1}", "\\\\1", "(?P<n>a)?b", "", "é?", ".", "(a)?(b)?(c)?", "\\\\b", "^$"]
RE_SUBJECTS = ["", "a", "b", "ab", "xb", "héb", "aaa"]
RE_FORMS = ['search("{S}", "{P}")', 'search_all("{S}", "{P}")', 'replace("{S}", "{P}", "x")', 'replace("{S}", "{P}", \\m -> str(m))',
            'replace("{S}", "{P}", \\m -> m[1])', '"{S}" split_re "{P}"', '"{S}" split_re "{P}" by 2', '"{S}" search "{P}" then len',
            'for (m <- search_all("{S}", "{P}")) yield m[-1]', 'replace("{S}", "{P}", "$1$2")']


def globals_list():
    e = E.Engine()
    try:
        g = e.raw({"globals": 1})["globals"]
    finally:
        e.stop()
    return [x[0] for x in g if x[1] and x[0] not in SKIP]


_G = None


def fns():
    global _G
    if _G is None:
        _G = globals_list()
    return _G


def wrap(body):
    return 'y := [1, [2]]; r := try (%s; "ok") catch e -> "caught"; [r, y, 1 + 1]' % body


def bounds(tier):
    return {"callables": len(fns()), "skipped_effectful": sorted(SKIP), "pool": [n for n, _ in POOL] if tier != "quick" else QUICK,
            "three_arg_subpool": SUB3 if tier != "quick" else SUB3_QUICK, "statement_templates": len(TEMPLATES),
            "token_programs": "every sequence of <= %d tokens over the 58-token alphabet of C15, evaluated" % (3 if tier == "quick" else 4)}


def cases(tier, shard, nshards):
    names = [n for n, _ in POOL]
    pool = names if tier != "quick" else QUICK
    sub3 = SUB3 if tier != "quick" else SUB3_QUICK
    cnt = 0
    for f in fns():
        tuples = [()] + [(a,) for a in pool] + [(a, b) for a in pool for b in pool] + [t for t in itertools.product(sub3, repeat=3)]
        for t in tuples:
            cnt += 1
            if cnt % nshards != shard:
                continue
            risky = any(a in RISKY for a in t)
            body = "force_(%s(%s))" % (f, ", ".join("p_" + a for a in t))
            opts = {"step_ms": 200 if risky else 3000, "fuel": 20000, "compact": True, "hang_retry": not risky}
            yield Case(wrap(body), {"k": "call", "fn": f, "args": list(t), "risky": risky}, pre=PRE, opts=opts)
    for f in AFT_FAILS:
        cnt += 1
        if cnt % nshards != shard:
            continue
        yield Case([AFT_SETUP + "try (%s) catch _ -> null; %s" % (f, AFT_OBSERVE), AFT_SETUP + AFT_OBSERVE, AFT_SETUP + "(%s); 0" % f],
                   {"k": "aftermath", "fail": f, "fn": "aftermath", "args": [], "risky": False}, iso=True, opts={"step_ms": 3000, "fuel": 20000, "compact": True})
    for form in RE_FORMS:
        for pat in RE_PATTERNS:
            for subj in RE_SUBJECTS:
                cnt += 1
                if cnt % nshards != shard:
                    continue
                body = form.replace("{S}", subj).replace("{P}", pat)
                yield Case(wrap(body), {"k": "stmt", "fn": "regex", "args": [pat, subj], "risky": False}, pre=PRE, opts={"step_ms": 3000, "fuel": 20000, "compact": True})
    tpool = QUICK if tier == "quick" else [n for n in names if n not in ("negzero", "emptybytes", "defdict", "emptystream", "builtin")]
    t3 = SUB3_QUICK + ["i64max", "dict", "uchar", "ustr", "stream"] if tier == "quick" else SUB3 + ["i64max", "bigint", "vector", "badutf8", "ustr"]
    for (name, tpl, holes) in TEMPLATES:
        vals = tpool if holes <= 2 else t3
        for t in itertools.product(vals, repeat=holes):
            cnt += 1
            if cnt % nshards != shard:
                continue
            fill = dict(zip("ABC", ["p_" + a for a in t]))
            body = tpl.format(**fill)
            # in an addressing statement a huge integer is a position, not an amount: bounds are clamped or refused, so only an
            # infinite operand makes such a statement resource-bound
            risky = ("infstream" in t) if name in ADDRESSING else any(a in RISKY for a in t)
            opts = {"step_ms": 200 if risky else 3000, "fuel": 20000, "compact": True, "hang_retry": not risky}
            yield Case(wrap(body), {"k": "stmt", "fn": name, "args": list(t), "risky": risky}, pre=PRE, opts=opts)
    # every program of up to three tokens over the token alphabet of the parser check (C15) is also RUN (x and f are bound): whatever
    # parses must end with a value, a catchable error or an escaped break / return - never a panic
    from .c15 import TOKENS
    for n in range(1, 4 if tier == "quick" else 5):
        for t in itertools.product(TOKENS, repeat=n - 1):
            cnt += 1
            if cnt % nshards != shard:
                continue
            steps = [" ".join(t + (last,)) for last in TOKENS]
            yield Case(steps, {"k": "tokens", "fn": "tokens", "args": list(t), "risky": False}, pre=TOK_PRE, iso=True,
                       opts={"step_ms": 1500, "fuel": 3000, "compact": True, "cap": 6})


def nontrivial(case, rs):
    if case.meta["k"] == "aftermath":
        return rs[0].get("st") == "ok"
    if case.meta["k"] == "tokens":
        return any(r.get("st") != "parse_error" for r in rs)
    r = rs[0]
    return r.get("st") == "ok" and isinstance(r.get("v"), list)


def norm_msg(e):
    e = (e or "").split(" @ ")[0]
    e = re.sub(r"\d+", "N", e)
    return e[:80]


def site(e):
    m = re.search(r" @ (.*?):(\d+)$", e or "")
    if not m:
        return "?"
    f = m.group(1)
    f = f.split("/src/")[-1] if "/src/" in f else f
    if ".cargo" in (m.group(1)):
        f = "dep:" + m.group(1).split("/")[-1]
    return f


RESOURCE = ("capacity overflow", "memory allocation", "alloc", "out of memory")


def tally(case, rs, extra):
    if case.meta["k"] == "aftermath":
        extra["aftermath_cases"] += 1
        return
    if case.meta["k"] == "tokens":
        for r in rs:
            extra["tokens_" + str(r.get("st"))] += 1
        return
    r = rs[0]
    st = r.get("st")
    if case.meta["risky"] and st in ("hang", "abort", "fuel"):
        extra["resource_bound_" + st] += 1
    v = r.get("v")
    if st == "ok" and isinstance(v, list) and v[0] == "l" and v[1] and v[1][0] == ["s", "caught"]:
        extra["caught_errors"] += 1
    elif st == "ok":
        extra["returned_values"] += 1


def judge_aftermath(case, rs):
    m = case.meta
    a, b, c = rs[0], rs[1], rs[2]
    sig = "C14 aftermath fail=`%s`" % m["fail"][:40]
    for src, r in zip(case.steps, rs):
        if r.get("st") in ("panic", "abort", "hang"):
            return [Violation(sig + " st=" + r["st"], "%s -> %s %s" % (src, r["st"], (r.get("e") or "")[:200]), "value", r["st"])]
    if c.get("st") == "ok":
        return []      # the statement does not fail at all: nothing to compare
    if b.get("st") != "ok":
        return [Violation("C14 harness aftermath baseline", "%s -> %s %s" % (case.steps[1], b.get("st"), b.get("e")), None, None)]
    if a.get("st") != "ok" or json.dumps(a.get("v"), sort_keys=True) != json.dumps(b.get("v"), sort_keys=True) or a.get("o", "") != b.get("o", ""):
        return [Violation(sig + " st=trace-left", "after the caught failure the observations are %s %s, without it %s" % (a.get("st"), json.dumps(a.get("v", a.get("e")))[:300], json.dumps(b.get("v"))[:300]),
                          b.get("v"), a.get("v", a.get("st")))]
    return []


def judge_tokens(case, rs):
    out = []
    for src, r in zip(case.steps, rs):
        st = r.get("st")
        if st == "panic":
            msg = r.get("e", "")
            out.append(Violation("C14 tokens st=panic msg=%s site=%s" % (norm_msg(msg), site(msg)), "%s panicked: %s" % (src, msg[:300]), "value or catchable error", msg[:300]))
        elif st in ("abort", "hang"):
            out.append(Violation("C14 tokens st=%s" % st, "%s -> %s %s" % (src, st, (r.get("e") or "")[-200:]), "value or catchable error", st))
    return out[:3]


def judge(case, rs):
    m = case.meta
    if m["k"] == "aftermath":
        return judge_aftermath(case, rs)
    if m["k"] == "tokens":
        return judge_tokens(case, rs)
    r = rs[0]
    st = r.get("st")
    src = case.steps[0]
    what = "%s %s(%s)" % (m["k"], m["fn"], ",".join(m["args"]))
    if st == "ok":
        v = r.get("v")
        good = isinstance(v, list) and v[0] == "l" and len(v[1]) == 3 and v[1][0] in (["s", "ok"], ["s", "caught"]) \
            and v[1][1] == ["l", [["i", "1"], ["l", [["i", "2"]]]]] and v[1][2] == ["i", "2"]
        if not good:
            return [Violation("C14 %s fn=%s st=bad-aftermath" % (m["k"], m["fn"]), "%s -> %s (expected [\"ok\"|\"caught\", [1, [2]], 2])" % (src, json.dumps(v)[:200]), None, v)]
        return []
    if st == "pre_error":
        return [Violation("C14 harness pre_error", r.get("e", ""), None, None)]
    if st == "panic":
        msg = r.get("e", "")
        if m["risky"] and any(w in msg for w in RESOURCE):
            return []
        return [Violation("C14 %s fn=%s st=panic msg=%s site=%s" % (m["k"], m["fn"], norm_msg(msg), site(msg)),
                          "%s panicked: %s" % (src, msg[:300]), "value or catchable error", msg[:300])]
    if st in ("hang", "abort", "fuel"):
        if m["risky"]:
            return []
        return [Violation("C14 %s fn=%s st=%s" % (m["k"], m["fn"], st), "%s -> %s %s" % (src, st, (r.get("e") or "")[-300:]), "value or catchable error", st)]
    if st in ("throw", "control", "parse_error"):
        if st == "parse_error":
            return []   # the generated text is not a program: nothing was evaluated
        return [Violation("C14 %s fn=%s st=escaped-%s" % (m["k"], m["fn"], st), "%s: %s escaped the enclosing try: %s" % (src, st, r.get("e")), "caught", st)]
    return []
