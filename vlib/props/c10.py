"""C10 - indexing and slicing follow Python semantics on every sequence kind.

Alphabet: 8 sequence kinds x every length 0..L x every index / slice bound in [-len-3, len+3], extreme
values around +-2^63 and beyond, non-integer and non-numeric indices, through the bracket
syntax, sections, !! !? !%, the accessor builtins, and the write forms (index assignment,
x{i = v}, pop, remove, |..).
Oracle: Python list / bytes indexing and slicing.
"""
from fractions import Fraction

from ..canon import cI, norm, lit_int
from ..core import Case, Violation

PROP = "C10"
LEVEL = "exploration"
TECHNIQUE = "bounded exhaustive enumeration of (sequence kind, length, index/slice, access form) on the real interpreter vs Python list/bytes slicing"
RULE = ("every (kind, length, index or bound pair, form) inside the stated bounds is run once; non-trivial = the "
        "reference yields a value (in-range index, any slice); distinct by program text")
ASSUMPTIONS = ["Python list/bytes indexing and slicing is the reference", "strings are indexed by UTF-8 byte (documented)",
               "`!?` with a negative index and `!?`/`!%` on streams are not asserted"]
SHARDED = True
RAISE = "raise"

KINDS = ["list", "astr", "ustr", "vector", "bytes", "range", "wstream", "mapped", "rrange", "drange", "wadv", "radv", "madv"]
UCH = ["é", "a", "€", "b", "ñ"]
LONG_N = 300
LONG_KINDS = ("list", "vector", "range", "rrange", "drange", "wstream", "mapped", "wadv")


def seq(kind, n):
    """-> (source, elements) ; elements = list of canon values, or bytes for strings"""
    vals = [10 * (k + 1) for k in range(n)]
    if kind == "list":
        return "[%s]" % ", ".join(map(str, vals)), [cI(v) for v in vals]
    if kind == "astr":
        s = "abcde"[:n]
        return '"%s"' % s, s.encode()
    if kind == "ustr":
        s = "".join(UCH[:n])
        return '"%s"' % s, s.encode()
    if kind == "vector":
        return "V(%s)" % ", ".join(map(str, vals)), [cI(v) for v in vals]
    if kind == "bytes":
        return "B[%s]" % ",".join(map(str, vals)), [cI(v) for v in vals]
    if kind == "range":
        return "(10 til %d by 10)" % (10 * n + 10), [cI(v) for v in vals]
    if kind == "rrange":      # a stepped range whose span is NOT a multiple of the step
        return "(10 til %d by 10)" % (10 * n + 5), [cI(v) for v in vals]
    if kind == "drange":      # descending, ragged
        return "(%d til 5 by (-10))" % (10 * n), [cI(v) for v in reversed(vals)]
    if kind == "wstream":
        return "stream([%s])" % ", ".join(map(str, vals)), [cI(v) for v in vals]
    if kind == "mapped":
        return "((1 to %d) lazy_map (*10))" % n, [cI(v) for v in vals]
    # streams that were partly consumed before the access: what is left is the sequence
    if kind == "wadv":
        return "(stream([%s]) drop 2)" % ", ".join(map(str, [1, 2] + vals)), [cI(v) for v in vals]
    if kind == "radv":
        return "(((0 - 10) til %d by 10) drop 2)" % (10 * n + 10), [cI(v) for v in vals]
    if kind == "madv":
        return "(tail((0 to %d) lazy_map (*10)))" % n, [cI(v) for v in vals]
    raise KeyError(kind)


def is_str(kind):
    return kind in ("astr", "ustr")


def is_stream(kind):
    return kind in ("range", "wstream", "mapped", "rrange", "drange", "wadv", "radv", "madv")


def str_piece(bs):
    """what a byte slice of a string evaluates to"""
    try:
        return ["s", bytes(bs).decode("utf-8")]
    except UnicodeDecodeError:
        return ["b", list(bs)]


def want_elem(kind, E, i):
    if is_str(kind):
        return str_piece(E[i:i + 1] if i >= 0 else E[len(E) + i:len(E) + i + 1])
    return E[i]


def want_slice(kind, E, a, b):
    """-> matcher tuple"""
    part = E[a:b]
    if is_str(kind):
        return ("exact", str_piece(part))
    if kind == "list":
        return ("exact", ["l", list(part)])
    if kind == "vector":
        return ("exact", ["v", list(part)])
    if kind == "bytes":
        return ("exact", ["b", [int(x[1]) for x in part]])
    return ("elems", list(part))


def matches(m, got):
    got = norm(got)
    if m[0] == "exact":
        return got == m[1]
    if m[0] == "elems":
        if not isinstance(got, list):
            return False
        if got[0] == "l":
            return got[1] == m[1]
        if got[0] == "S":
            return got[3] == "end" and got[2] == m[1]
        return False
    if m[0] == "pair":
        return isinstance(got, list) and got[0] == "l" and len(got[1]) == 2 and matches(m[1], got[1][0]) and matches(m[2], got[1][1])
    if m[0] == "null":
        return got is None
    if m[0] == "either":
        return matches(m[1], got) or matches(m[2], got)
    raise KeyError(m)


BIGS = [2 ** 31, -2 ** 31, 2 ** 62, -2 ** 62, 2 ** 63 - 1, -2 ** 63, 2 ** 63, -2 ** 63 - 1, 2 ** 64, -2 ** 64, 2 ** 100]
NONINT = ["1.0", "(1/2)", "1.5", '"1"', "null", "[0]"]


def in_word(v):
    return -2 ** 63 <= v < 2 ** 63


def bounds(tier):
    return {"kinds": KINDS, "max_len": 3 if tier == "tiny" else 5 if tier == "quick" else 7, "index_window": "[-len-3, len+3]", "long_sequences": "length %d for %s: both ends and +-255..257" % (LONG_N, ", ".join(LONG_KINDS)),
            "extreme_indices": [str(b) for b in BIGS], "non_integer_indices": NONINT}


def ls(v):
    return "" if v is None else lit_int(v)


def bigrep(i):
    """the integer i held in big representation (arithmetic never re-normalises): an index is a value, not a representation"""
    return "((2^70+%d)-2^70)" % i if i >= 0 else "((2^70-%d)-2^70)" % (-i)


def cases(tier, shard, nshards):
    for c in _cases(tier, shard, nshards):
        if c.meta.get("n") == LONG_N:
            c.opts = dict(c.opts, cap=LONG_N + 50)      # lazily built results are dumped in full
        yield c


def _cases(tier, shard, nshards):
    maxn = 3 if tier == "tiny" else 5 if tier == "quick" else 7
    cnt = 0
    for kind in KINDS:
        for n in list(range(0, maxn + 1)) + ([LONG_N] if kind in LONG_KINDS else []):
            src, E = seq(kind, n)
            L = len(E)
            cnt += 1
            if cnt % nshards != shard:
                continue
            base = {"kind": kind, "n": n}
            window = list(range(-L - 3, L + 4))
            if n == LONG_N:
                # a long sequence: positions at both ends and around 255 / 256 / 257 from either end
                window = sorted({-L - 1, -L, -L + 1, -257, -256, -255, -2, -1, 0, 1, 2, 254, 255, 256, 257, L - 1, L, L + 1})
            # ---- reads by index
            for i in window + BIGS:
                forms = [("idx", "%s[%s]" % (src, lit_int(i))), ("bangbang", "%s !! %s" % (src, lit_int(i))),
                         ("section", "_[%s](%s)" % (lit_int(i), src))]
                if not is_stream(kind):
                    forms.append(("safe", "%s !? %s" % (src, lit_int(i))))
                    forms.append(("cyclic", "%s !%% %s" % (src, lit_int(i))))
                for f, prog in forms:
                    yield Case(prog, dict(base, op=f, i=str(i)))
                # the same reads on a sequence HELD by a variable (shared when the accessor sees it)
                yield Case("x := %s; x[%s]" % (src, lit_int(i)), dict(base, op="idx", i=str(i), held=1))
                yield Case("x := %s; x !! %s" % (src, lit_int(i)), dict(base, op="bangbang", i=str(i), held=1))
                if abs(i) <= L + 3:
                    bi = bigrep(i)
                    forms = [("idx", "%s[%s]" % (src, bi)), ("bangbang", "%s !! %s" % (src, bi)), ("section", "_[%s](%s)" % (bi, src))]
                    if not is_stream(kind):
                        forms += [("safe", "%s !? %s" % (src, bi)), ("cyclic", "%s !%% %s" % (src, bi))]
                    for f, prog in forms:
                        yield Case(prog, dict(base, op=f, i=str(i), rep="big"))
                    yield Case("%s[%s:]" % (src, bi), dict(base, op="slice", a=str(i), b=None, rep="big"))
                    yield Case("%s[:%s]" % (src, bi), dict(base, op="slice", a=None, b=str(i), rep="big"))
                    yield Case("%s[%s:%s]" % (src, bigrep(0), bi), dict(base, op="slice", a="0", b=str(i), rep="big"))
            for t in NONINT:
                yield Case("%s[%s]" % (src, t), dict(base, op="idx_nonint", i=t))
                yield Case("%s[%s:]" % (src, t), dict(base, op="slice_nonint", i=t))
            # ---- slices
            bnds = [None] + window + ([2 ** 62, -2 ** 62, 2 ** 63 - 1, -2 ** 63] if tier != "quick" else [2 ** 63 - 1, -2 ** 63])
            for a in bnds:
                for b in bnds:
                    yield Case("%s[%s:%s]" % (src, ls(a), ls(b)), dict(base, op="slice", a=None if a is None else str(a), b=None if b is None else str(b)))
                    if (a is None or abs(a) <= L + 1) and (b is None or abs(b) <= L + 1):
                        yield Case("x := %s; x[%s:%s]" % (src, ls(a), ls(b)), dict(base, op="slice", a=None if a is None else str(a), b=None if b is None else str(b), held=1))
                    if a is not None and b is not None and abs(a) <= L + 1 and abs(b) <= L + 1:
                        # sections whose bounds are slots: arguments fill the slots left to right
                        meta = dict(base, op="slice", a=str(a), b=str(b), form="slots")
                        yield Case("(_[_:_])(%s, %s, %s)" % (src, ls(a), ls(b)), meta)
                        yield Case("(_[_:%s])(%s, %s)" % (ls(b), src, ls(a)), meta)
                        yield Case("(_[%s:_])(%s, %s)" % (ls(a), src, ls(b)), meta)
                    if a is None or b is None or abs(a) <= 1 or abs(b) <= 1:
                        yield Case("_[%s:%s](%s)" % (ls(a), ls(b), src), dict(base, op="slice", a=None if a is None else str(a), b=None if b is None else str(b)))
            for big in (2 ** 63, -2 ** 63 - 1, 2 ** 64, 2 ** 100):
                yield Case("%s[%s:]" % (src, lit_int(big)), dict(base, op="slice_beyond", a=str(big), b=None))
                yield Case("%s[:%s]" % (src, lit_int(big)), dict(base, op="slice_beyond", a=None, b=str(big)))
            # ---- accessors
            for f in ("first", "second", "third", "last", "tail", "butlast", "uncons", "unsnoc", "only", "uncons?", "unsnoc?"):
                yield Case("%s(%s)" % (f, src), dict(base, op=f))
                yield Case("x := %s; %s(x)" % (src, f), dict(base, op=f, held=1))
            for k in window:
                yield Case("%s take %s" % (src, lit_int(k)), dict(base, op="take", i=str(k)))
                yield Case("%s drop %s" % (src, lit_int(k)), dict(base, op="drop", i=str(k)))
                yield Case("x := %s; x take %s" % (src, lit_int(k)), dict(base, op="take", i=str(k), held=1))
                yield Case("x := %s; x drop %s" % (src, lit_int(k)), dict(base, op="drop", i=str(k), held=1))
                yield Case("x := %s; y := x take %s; x drop %s; [y, x[:]]" % (src, lit_int(k), lit_int(k)), dict(base, op="take_keeps", i=str(k)))
                yield Case("%s take %s" % (src, bigrep(k)), dict(base, op="take", i=str(k), rep="big"))
                yield Case("%s drop %s" % (src, bigrep(k)), dict(base, op="drop", i=str(k), rep="big"))
            # ---- writes
            if kind in ("list", "astr", "ustr", "vector", "bytes", "range", "wstream"):
                new = '"z"' if is_str(kind) else "99"
                for i in window + [2 ** 63 - 1, -2 ** 63, 2 ** 64]:
                    yield Case("x := %s; x[%s] = %s; x" % (src, lit_int(i), new), dict(base, op="assign", i=str(i)))
                    if not is_stream(kind) and expect(dict(base, op="assign", i=str(i))) == RAISE:
                        # a write that is refused leaves the sequence as it was
                        yield Case("x := %s; try (x[%s] = %s) catch _ -> null; x" % (src, lit_int(i), new), dict(base, op="refused_write", i=str(i), form="assign"))
                        if kind == "list":
                            yield Case("x := %s; try (remove x[%s]) catch _ -> null; x" % (src, lit_int(i)), dict(base, op="refused_write", i=str(i), form="remove"))
                            yield Case("x := %s; try (x[%s] += 1) catch _ -> null; x" % (src, lit_int(i)), dict(base, op="refused_write", i=str(i), form="opassign"))
                    if kind == "list":
                        yield Case("x := %s; x{%s = %s}" % (src, lit_int(i), new), dict(base, op="update", i=str(i)))
                        yield Case("x := %s; y := remove x[%s]; [x, y]" % (src, lit_int(i)), dict(base, op="remove", i=str(i)))
                        yield Case("%s |.. [%s, %s]" % (src, lit_int(i), new), dict(base, op="replace_at", i=str(i)))
                    if abs(i) <= L + 3:
                        bi = bigrep(i)
                        yield Case("x := %s; x[%s] = %s; x" % (src, bi, new), dict(base, op="assign", i=str(i), rep="big"))
                        if kind == "list":
                            yield Case("x := %s; x{%s = %s}" % (src, bi, new), dict(base, op="update", i=str(i), rep="big"))
                            yield Case("x := %s; y := remove x[%s]; [x, y]" % (src, bi), dict(base, op="remove", i=str(i), rep="big"))
                            yield Case("%s |.. [%s, %s]" % (src, bi, new), dict(base, op="replace_at", i=str(i), rep="big"))
                if kind == "list":
                    yield Case("x := %s; y := pop x; [x, y]" % src, dict(base, op="pop"))
                    for a in [None] + window:
                        for b in [None] + window:
                            yield Case("x := %s; y := remove x[%s:%s]; [x, y]" % (src, ls(a), ls(b)),
                                       dict(base, op="remove_slice", a=None if a is None else str(a), b=None if b is None else str(b)))


def nontrivial(case, rs):
    return rs[0].get("st") == "ok"


def expect(m):
    """-> matcher or RAISE or None (not asserted)"""
    kind, n, op = m["kind"], m["n"], m["op"]
    _, E = seq(kind, n)
    L = len(E)
    geti = lambda key: None if m.get(key) is None else int(m[key])
    if op in ("idx", "bangbang", "section"):
        i = geti("i")
        return ("exact", want_elem(kind, E, i)) if -L <= i < L else RAISE
    if op == "safe":
        i = geti("i")
        if 0 <= i < L:
            return ("exact", want_elem(kind, E, i))
        if i >= L:
            return ("null",)
        if -L <= i < 0:
            return ("either", ("null",), ("exact", want_elem(kind, E, i)))
        return ("null",)
    if op == "cyclic":
        i = geti("i")
        if L == 0:
            return RAISE
        if not in_word(i):
            return ("maybe", ("exact", want_elem(kind, E, i % L)))  # beyond a machine word: value or error
        return ("exact", want_elem(kind, E, i % L))
    if op in ("idx_nonint", "slice_nonint"):
        return RAISE
    if op == "slice":
        return want_slice(kind, E, geti("a"), geti("b"))
    if op == "slice_beyond":
        return ("maybe", want_slice(kind, E, geti("a"), geti("b")))
    if op == "first":
        return ("exact", want_elem(kind, E, 0)) if L > 0 else RAISE
    if op == "second":
        return ("exact", want_elem(kind, E, 1)) if L > 1 else RAISE
    if op == "third":
        return ("exact", want_elem(kind, E, 2)) if L > 2 else RAISE
    if op == "last":
        return ("exact", want_elem(kind, E, -1)) if L > 0 else RAISE
    if op == "tail":
        return want_slice(kind, E, 1, None)
    if op == "butlast":
        return want_slice(kind, E, None, -1)
    if op == "take":
        return want_slice(kind, E, None, geti("i"))
    if op == "drop":
        return want_slice(kind, E, geti("i"), None)
    if op in ("uncons", "uncons?"):
        if L == 0:
            return RAISE if op == "uncons" else ("null",)
        return ("pair", ("exact", want_elem(kind, E, 0)), want_slice(kind, E, 1, None))
    if op in ("unsnoc", "unsnoc?"):
        if L == 0:
            return RAISE if op == "unsnoc" else ("null",)
        return ("pair", want_slice(kind, E, None, -1), ("exact", want_elem(kind, E, -1)))
    if op == "only":
        return ("exact", want_elem(kind, E, 0)) if L == 1 else RAISE
    if op in ("assign", "update", "replace_at"):
        i = geti("i")
        if not (-L <= i < L):
            return RAISE
        if is_str(kind):
            bs = bytearray(E)
            bs[i] = ord("z")
            try:
                return ("exact", ["s", bytes(bs).decode("utf-8")])
            except UnicodeDecodeError:
                return RAISE
        F = list(E)
        F[i] = cI(99)
        if kind == "vector":
            return ("exact", ["v", F])
        if kind == "bytes":
            return ("exact", ["b", [int(x[1]) for x in F]])
        return ("exact", ["l", F])
    if op == "refused_write":
        return want_slice(kind, E, None, None)
    if op == "take_keeps":
        return ("pair", want_slice(kind, E, None, geti("i")), want_slice(kind, E, None, None))
    if op == "pop":
        if L == 0:
            return RAISE
        return ("pair", ("exact", ["l", E[:-1]]), ("exact", E[-1]))
    if op == "remove":
        i = geti("i")
        if not (-L <= i < L):
            return RAISE
        F = list(E)
        x = F.pop(i)
        return ("pair", ("exact", ["l", F]), ("exact", x))
    if op == "remove_slice":
        a, b = geti("a"), geti("b")
        F = list(E)
        part = F[a:b]
        del F[a:b]
        return ("pair", ("exact", ["l", F]), ("exact", ["l", part]))
    return None


def iclass(m):
    if "i" not in m or m.get("i") is None:
        return ""
    try:
        i = int(m["i"])
    except ValueError:
        return " index=non-integer"
    _, E = seq(m["kind"], m["n"])
    L = len(E)
    if not in_word(i):
        return " index=beyond-word"
    if abs(i) >= 2 ** 31:
        return " index=extreme"
    if 0 <= i < L:
        return " index=in-range"
    if -L <= i < 0:
        return " index=negative-in-range"
    return " index=out-of-range"


def judge(case, rs):
    m = case.meta
    r = rs[0]
    st = r.get("st")
    exp = expect(m)
    src = case.steps[0]
    sig = "C10 op=%s kind=%s%s%s" % (m["op"], m["kind"], iclass(m), " rep=big" if m.get("rep") == "big" else "")
    if exp is None:
        return []
    if exp == RAISE:
        if st == "ok":
            return [Violation(sig + " result=no-error", "%s gave %s, reference raises" % (src, r.get("v")), "raise", r.get("v"))]
        if st in ("panic", "abort", "hang"):
            return [Violation(sig + " result=" + st, "%s: %s (an index error is required)" % (src, r.get("e")), "raise", st)]
        return []
    if exp[0] == "maybe":
        if st == "ok" and not matches(exp[1], r["v"]):
            return [Violation(sig + " result=wrong-value", "%s gave %s, expected %s" % (src, norm(r["v"]), exp[1]), exp[1], r["v"])]
        if st in ("panic", "abort", "hang"):
            return [Violation(sig + " result=" + st, "%s: %s" % (src, r.get("e")), "value or error", st)]
        return []
    if st != "ok":
        return [Violation(sig + " result=" + st, "%s: expected %s, status %s %s" % (src, exp, st, r.get("e")), exp, st)]
    if not matches(exp, r["v"]):
        if m["op"] in ("uncons", "uncons?", "unsnoc", "unsnoc?") and is_str(m["kind"]):
            t = seq(m["kind"], m["n"])[1].decode()
            charwise = ["l", [["s", t[0]], ["s", t[1:]]]] if m["op"].startswith("uncons") else ["l", [["s", t[:-1]], ["s", t[-1]]]]
            if norm(r["v"]) == charwise:
                return [Violation(sig + " result=split-by-character-not-by-byte", "%s gave %s but [s[0], s[1:]] / [s[:-1], s[-1]] is %s" % (src, charwise, exp), exp, charwise)]
        return [Violation(sig + " result=wrong-value", "%s gave %s, expected %s" % (src, norm(r["v"]), exp), exp, norm(r["v"]))]
    return []
