"""C12 - patterns, destructuring, switch and runtime type annotations.

(a) Pattern matching: ~400 patterns up to nesting depth 2 (names, _, literals, `literally`, sequence
    shapes of length 0..3 with a splat at every position, annotations, or / and, struct patterns,
    operator patterns h .+ t, xs +. x, n + 1, 1 + n, k * 2, -x, a / b, 1 < _ < 9, a < b) x a pool of
    ~40 values of every kind x every binding context (:=, =, lambda parameter, for clause, switch
    arm, catch clause), against a structural reference matcher.
(b) switch: every sequence of <= 2 (quick) / 3 (thorough) arms over a pattern pool: the first
    matching arm runs, no match raises.
(c) Types: for every type T and value v: `v is T` against the documented classification,
    declaration `x: T = v` succeeds iff `v is T`, `T(v)` succeeding implies `T(v) is T`,
    `v is type(v)`, `v is anything`; every assignment history of length <= 2 / 3 on an annotated
    variable (=, f=, every =, swap, tuple assignment, x[0] =, x[0] f=): after every statement that
    completes, `x is T` still holds.
"""
import itertools
import json
from fractions import Fraction

from ..canon import cI, cF, cQ, norm, num_value, resort
from ..core import Case, Violation

PROP = "C12"
LEVEL = "exploration"
TECHNIQUE = "bounded exhaustive enumeration of (pattern, value, binding context), switch arm sequences and annotated-variable assignment histories on the real interpreter vs a structural reference matcher / type table"
RULE = ("every (pattern, value, context) of the pools, every arm sequence, every (type, value) and every assignment history up to the bound; "
        "non-trivial = the reference matcher binds at least one name or the statement completes; distinct by program text")
ASSUMPTIONS = ["the structural matcher of this module encodes the documented pattern semantics", "the value of x after a statement that raised is not asserted"]
SHARDED = True
FAIL = "fail"

PRE = ["struct P (px, py)", "struct Q (qx)"]

# ---------------------------------------------------------------- value pool: (label, source, canon, kind-label)
INST = lambda name, *fs: ["o", name, list(fs)]
L = lambda *xs: ["l", list(xs)]
VALUES = [
    ("null", "null", None), ("i0", "0", cI(0)), ("i1", "1", cI(1)), ("i5", "5", cI(5)), ("ineg", "(-1)", cI(-1)), ("i6", "6", cI(6)),
    ("ibig1", "((2^70+1)-2^70)", cI(1)), ("ihuge", "(2^70)", cI(2 ** 70)),
    ("f1", "1.0", cF(1.0)), ("f15", "1.5", cF(1.5)), ("q12", "(1/2)", cQ(Fraction(1, 2))), ("q34", "(3/4)", cQ(Fraction(3, 4))),
    ("sx", '"x"', ["s", "x"]), ("s0", '""', ["s", ""]), ("sab", '"ab"', ["s", "ab"]), ("su", '"é!"', ["s", "é!"]),
    ("l0", "[]", L()), ("l1", "[1]", L(cI(1))), ("l12", "[1, 2]", L(cI(1), cI(2))), ("l123", "[1, 2, 3]", L(cI(1), cI(2), cI(3))),
    ("l1234", "[1, 2, 3, 4]", L(cI(1), cI(2), cI(3), cI(4))), ("ln1", "[1, [2, 3]]", L(cI(1), L(cI(2), cI(3)))),
    ("ln2", "[[1, 2], 3]", L(L(cI(1), cI(2)), cI(3))), ("lx2", '["x", 2]', L(["s", "x"], cI(2))), ("lnull", "[null, 2]", L(None, cI(2))),
    ("l52", "[5, 2]", L(cI(5), cI(2))), ("l21", "[2, 1]", L(cI(2), cI(1))), ("lf", "[1.0, 2]", L(cF(1.0), cI(2))),
    ("d0", "{}", ["d", []]), ("d1", "{1: 2}", ["d", [[cI(1), cI(2)]]]), ("v12", "V(1, 2)", ["v", [cI(1), cI(2)]]), ("v1", "V(1)", ["v", [cI(1)]]),
    ("b12", "B[1, 2]", ["b", [1, 2]]), ("st3", "(1 to 3)", ["S", "1 til 4 by 1", [cI(1), cI(2), cI(3)], "end"]),
    ("st2", "(1 to 2)", ["S", "1 til 3 by 1", [cI(1), cI(2)], "end"]), ("clo", "(\\q -> q)", "FUNC"), ("blt", "(+)", "FUNC"), ("ty", "int", "TYPE"),
    ("sty", "P", "TYPE"), ("p12", "P(1, 2)", INST("P", cI(1), cI(2))), ("p1l", "P(1, [2, 3])", INST("P", cI(1), L(cI(2), cI(3)))), ("q1", "Q(1)", INST("Q", cI(1))),
]
VAL = {v[0]: v for v in VALUES}


def ckind(c):
    if c is None:
        return "null"
    if c in ("FUNC", "TYPE"):
        return c
    return c[0]


def is_num(c):
    return isinstance(c, list) and c and c[0] in ("i", "q", "f", "c")


def exact(c):
    v = num_value(c)
    return Fraction(v) if not isinstance(v, complex) else v


def ceq(a, b):
    """value equality of canon values (numbers across levels by exact value)"""
    if is_num(a) and is_num(b):
        x, y = num_value(a), num_value(b)
        if isinstance(x, float) and x != x:
            return False
        try:
            return Fraction(x) == Fraction(y)
        except (TypeError, ValueError, OverflowError):
            return x == y
    if a is None or b is None or isinstance(a, str) or isinstance(b, str):
        return a == b and a is None
    if a[0] != b[0]:
        return False
    if a[0] in ("l", "v"):
        return len(a[1]) == len(b[1]) and all(ceq(x, y) for x, y in zip(a[1], b[1]))
    if a[0] == "o":
        return a[1] == b[1] and all(ceq(x, y) for x, y in zip(a[2], b[2]))
    return a == b


def elements(c):
    """elements of a finite sequence value, or None when it is not a sequence"""
    k = ckind(c)
    if k == "l":
        return list(c[1])
    if k == "s":
        return [["s", ch] for ch in c[1]]
    if k == "v":
        return list(c[1])
    if k == "b":
        return [cI(x) for x in c[1]]
    if k == "d":
        return [e[0] for e in c[1]]
    if k == "S":
        return list(c[2])
    return None


def rebuild(kind, xs):
    if kind == "s":
        return ["s", "".join(x[1] for x in xs)]
    if kind == "v":
        return ["v", xs]
    if kind == "b":
        return ["b", [int(x[1]) for x in xs]]
    return ["l", xs]


# ---------------------------------------------------------------- types
TYPES = ["int", "rational", "float", "complex", "number", "str", "list", "dict", "vector", "bytes", "stream", "func", "type", "anything",
         "nulltype", "P", "Q", "satisfying(even)"]


def is_type(c, T):
    k = ckind(c)
    if T == "anything":
        return True
    if T == "int":
        return k == "i"
    if T == "rational":
        return k == "q"
    if T == "float":
        return k == "f"
    if T == "complex":
        return k == "c"
    if T == "number":
        return k in ("i", "q", "f", "c")
    if T == "str":
        return k == "s"
    if T == "list":
        return k == "l"
    if T == "dict":
        return k == "d"
    if T == "vector":
        return k == "v"
    if T == "bytes":
        return k == "b"
    if T == "stream":
        return k == "S"
    if T == "func":
        return k in ("FUNC", "TYPE")
    if T == "type":
        return k == "TYPE"
    if T == "nulltype":
        return k == "null"
    if T in ("P", "Q"):
        return k == "o" and c[1] == T
    if T == "satisfying(even)":
        if k == "i":
            return int(c[1]) % 2 == 0
        return None       # even() of a non-integer: raises or not - not asserted
    raise KeyError(T)


# ---------------------------------------------------------------- patterns
# ("name", n) ("_",) ("lit", canon, src) ("literally", src, canon) ("seq", items, style) ("splat", n)
# ("ann", pat, T) ("or", p, q) ("and", p, q) ("struct", S, pats) ("cons", h, t) ("snoc", xs, x)
# ("plus", n, k) ("plusl", k, n) ("times", n, k) ("neg", n) ("frac", a, b) ("cmphole", lo, hi) ("cmp2", a, b)
def names_of(p):
    t = p[0]
    if t == "name" or t == "splat":
        return [p[1]]
    if t in ("_", "lit", "literally", "cmphole", "neglit"):
        return []
    if t == "fraclit":
        return [p[1]]
    if t == "conslit":
        return [p[2]]
    if t == "snoclit":
        return [p[1]]
    if t == "seq":
        return [n for it in p[1] for n in names_of(it)]
    if t in ("ann", "annparts"):
        return names_of(p[1])
    if t in ("or", "and"):
        out = []
        for n in names_of(p[1]) + names_of(p[2]):
            if n not in out:
                out.append(n)
        return out
    if t == "struct":
        return [n for it in p[2] for n in names_of(it)]
    if t in ("cons", "snoc", "frac", "cmp2"):
        return [p[1], p[2]]
    if t in ("cons2", "snoc2"):
        return [p[1], p[2], p[3]]
    if t == "annsplatseq":
        return ["n0", "r"]
    if t == "plus2":
        return [p[1]]
    if t in ("plus", "times", "neg"):
        return [p[1]]
    if t == "plusl":
        return [p[2]]
    raise KeyError(p)


def src_of(p, top=False):
    t = p[0]
    if t == "name":
        return p[1]
    if t == "_":
        return "_"
    if t == "lit":
        return p[2]
    if t == "literally":
        return "literally %s" % p[1]
    if t == "splat":
        return "...%s" % p[1]
    if t == "seq":
        inner = ", ".join(src_of(x) for x in p[1])
        if len(p[1]) == 1:
            inner += ","
        if p[2] == "bracket":
            return "[%s]" % ", ".join(src_of(x) for x in p[1])
        if len(p[1]) == 0:
            return "[]"
        return inner if top else "(%s)" % inner
    if t == "ann":
        return "(%s: %s)" % (src_of(p[1]), p[2])
    if t == "annparts":      # a parenthesised group with one annotation: it applies to every part
        return ("%s: %s" if top else "(%s: %s)") % (src_of(p[1]), p[2])
    if t == "or":
        return "(%s or %s)" % (src_of(p[1]), src_of(p[2]))
    if t == "and":
        return "(%s and %s)" % (src_of(p[1]), src_of(p[2]))
    if t == "struct":
        return "%s(%s)" % (p[1], ", ".join(src_of(x) for x in p[2]))
    if t == "cons":
        return "(%s .+ %s)" % (p[1], p[2])
    if t == "snoc":
        return "(%s +. %s)" % (p[1], p[2])
    # chains of one pattern operator group like the operator does in expressions: .+ to the right, +. and + to the left
    if t == "annsplatseq":     # a splat target with an annotation of its own: the annotation is about the list it collects
        inner = "n0: %s, ...r: %s" % (p[1], p[2])
        return inner if top else "(%s)" % inner
    if t == "cons2":
        return "(%s .+ %s .+ %s)" % (p[1], p[2], p[3])
    if t == "snoc2":
        return "(%s +. %s +. %s)" % (p[1], p[2], p[3])
    if t == "plus2":
        return "(%s + %d + %d)" % (p[1], p[2], p[3])
    if t == "plus":
        return "(%s + %d)" % (p[1], p[2])
    if t == "plusl":
        return "(%d + %s)" % (p[1], p[2])
    if t == "times":
        return "(%s * %d)" % (p[1], p[2])
    if t == "neg":
        return "(-%s)" % p[1]
    if t == "frac":
        return "(%s / %s)" % (p[1], p[2])
    if t == "cmphole":
        return "(%d < _ < %d)" % (p[1], p[2])
    if t == "cmp2":
        return "(%s < %s)" % (p[1], p[2])
    # operator patterns with a LITERAL operand: the literal must be checked after the constructor is inverted
    if t == "neglit":
        return "-%d" % p[1] if top else "(-%d)" % p[1]
    if t == "fraclit":
        return "(%s / %d)" % (p[1], p[2])
    if t == "conslit":
        return "(%d .+ %s)" % (p[1], p[2])
    if t == "snoclit":
        return "(%s +. %d)" % (p[1], p[2])
    raise KeyError(p)


NA = "not-asserted"


def has_ann(p):
    if p[0] in ("ann", "annparts", "annsplatseq"):
        return True
    if p[0] == "seq":
        return any(has_ann(x) for x in p[1])
    if p[0] in ("or", "and"):
        return has_ann(p[1]) or has_ann(p[2])
    if p[0] == "struct":
        return any(has_ann(x) for x in p[2])
    return False


def match(p, v):
    """-> dict of bindings, FAIL, or NA"""
    t = p[0]
    if t == "name":
        return {p[1]: v}
    if t == "_":
        return {}
    if t == "lit":
        if v in ("FUNC", "TYPE") or ckind(v) == "o":
            return FAIL if True else NA
        return {} if ceq(v, p[1]) else FAIL
    if t == "literally":
        if v in ("FUNC", "TYPE"):
            return FAIL
        return {} if ceq(v, p[2]) else FAIL
    if t == "seq":
        items = p[1]
        if ckind(v) == "d" and len(v[1]) > 1:
            return NA
        es = elements(v)
        if es is None:
            return FAIL
        sp = [i for i, it in enumerate(items) if it[0] == "splat"]
        out = {}
        if not sp:
            if len(es) != len(items):
                return FAIL
            pairs = list(zip(items, es))
        else:
            s = sp[0]
            after = len(items) - s - 1
            if len(es) < s + after:
                return FAIL
            pairs = list(zip(items[:s], es[:s])) + list(zip(items[s + 1:], es[len(es) - after:]))
            out[items[s][1]] = ["l", es[s:len(es) - after]]
        for it, e in pairs:
            r = match(it, e)
            if r in (FAIL, NA):
                return r
            out.update(r)
        return out
    if t == "annsplatseq":
        if ckind(v) == "d" and len(v[1]) > 1:
            return NA
        es = elements(v)
        if es is None or len(es) < 1:
            return FAIL
        rest = ["l", es[1:]]
        ok1, ok2 = is_type(es[0], p[1]), is_type(rest, p[2])
        if ok1 is None or ok2 is None:
            return NA
        if not (ok1 and ok2):
            return FAIL
        return {"n0": es[0], "r": rest}
    if t == "annparts":
        r = match(p[1], v)
        if r in (FAIL, NA):
            return r
        for val in r.values():
            ok = is_type(val, p[2])
            if ok is None:
                return NA
            if not ok:
                return FAIL
        return r
    if t == "ann":
        ok = is_type(v, p[2])
        if ok is None:
            return NA
        if not ok:
            return FAIL
        return match(p[1], v)
    if t == "or":
        r = match(p[1], v)
        if r == NA:
            return NA
        if r != FAIL:
            return r
        return match(p[2], v)
    if t == "and":
        r1 = match(p[1], v)
        if r1 in (FAIL, NA):
            return r1
        r2 = match(p[2], v)
        if r2 in (FAIL, NA):
            return r2
        r1.update(r2)
        return r1
    if t == "struct":
        if ckind(v) != "o" or v[1] != p[1] or len(v[2]) != len(p[2]):
            return FAIL
        out = {}
        for it, e in zip(p[2], v[2]):
            r = match(it, e)
            if r in (FAIL, NA):
                return r
            out.update(r)
        return out
    if t in ("cons", "snoc"):
        k = ckind(v)
        if k == "d":
            return NA
        es = elements(v)
        if es is None or not es:
            return FAIL
        if k == "S":
            return NA     # the rest of a stream is a stream (kind not asserted here)
        if t == "cons":
            return {p[1]: es[0], p[2]: rebuild(k, es[1:])}
        return {p[1]: rebuild(k, es[:-1]), p[2]: es[-1]}
    if t == "cons2":        # a .+ (b .+ t)
        r1 = match(("cons", p[1], "_rest"), v)
        if r1 in (FAIL, NA):
            return r1
        r2 = match(("cons", p[2], p[3]), r1.pop("_rest"))
        if r2 in (FAIL, NA):
            return r2
        r1.update(r2)
        return r1
    if t == "snoc2":        # (t +. a) +. b
        r1 = match(("snoc", "_init", p[3]), v)
        if r1 in (FAIL, NA):
            return r1
        r2 = match(("snoc", p[1], p[2]), r1.pop("_init"))
        if r2 in (FAIL, NA):
            return r2
        r1.update(r2)
        return r1
    if t == "plus2":        # (n + j) + k
        r1 = match(("plus", "_mid", p[3]), v)
        if r1 in (FAIL, NA):
            return r1
        return match(("plus", p[1], p[2]), r1["_mid"])
    if t in ("plus", "plusl"):
        n, kk = (p[1], p[2]) if t == "plus" else (p[2], p[1])
        if not is_num(v):
            return FAIL
        if v[0] == "c":
            return NA
        val = num_value(v)
        if isinstance(val, float):
            r = val - kk
            return FAIL if r < 0 else {n: cF(r)}
        r = Fraction(val) - kk
        if r < 0:
            return FAIL
        return {n: cI(r.numerator) if v[0] == "i" else cQ(r)}
    if t == "times":
        if not is_num(v):
            return FAIL
        if v[0] != "i":
            return NA
        val = int(v[1])
        if p[2] == 0 or val % p[2]:
            return FAIL
        return {p[1]: cI(val // p[2])}
    if t == "neg":
        if ckind(v) == "v":
            return NA      # unary minus vectorises
        if not is_num(v):
            return FAIL
        if v[0] == "c":
            return NA
        val = num_value(v)
        if isinstance(val, float):
            return {p[1]: cF(-val)}
        return {p[1]: cI(-val) if v[0] == "i" else cQ(-Fraction(val))}
    if t == "frac":
        if ckind(v) == "i":
            return {p[1]: v, p[2]: cI(1)}
        if ckind(v) == "q":
            return {p[1]: cI(int(v[1])), p[2]: cI(int(v[2]))}
        return FAIL
    if t == "cmphole":
        if not is_num(v) or v[0] == "c":
            return FAIL
        val = num_value(v)
        return {} if p[1] < val < p[2] else FAIL
    if t == "neglit":
        if ckind(v) == "v":
            return NA
        if not is_num(v) or v[0] == "c":
            return FAIL if not is_num(v) else NA
        return {} if ceq(v, cI(-p[1])) else FAIL
    if t == "fraclit":
        if ckind(v) == "i":
            return {p[1]: v} if p[2] == 1 else FAIL
        if ckind(v) == "q":
            return {p[1]: cI(int(v[1]))} if int(v[2]) == p[2] else FAIL
        return FAIL
    if t in ("conslit", "snoclit"):
        k = ckind(v)
        if k in ("d", "S"):
            return NA
        es = elements(v)
        if es is None or not es:
            return FAIL
        if t == "conslit":
            return {p[2]: rebuild(k, es[1:])} if ceq(es[0], cI(p[1])) else FAIL
        return {p[1]: rebuild(k, es[:-1])} if ceq(es[-1], cI(p[2])) else FAIL
    if t == "cmp2":
        es = elements(v)
        if ckind(v) == "d":
            return NA
        if es is None or len(es) != 2:
            return FAIL
        a, b = es
        if is_num(a) and is_num(b) and a[0] != "c" and b[0] != "c":
            return {p[1]: a, p[2]: b} if num_value(a) < num_value(b) else FAIL
        if ckind(a) == "s" and ckind(b) == "s":
            return {p[1]: a, p[2]: b} if a[1] < b[1] else FAIL
        return FAIL
    raise KeyError(p)


def pattern_pool(tier):
    N = lambda i: ("name", "n%d" % i)
    atoms = lambda i: [N(i), ("_",), ("lit", cI(1), "1"), ("lit", ["s", "x"], '"x"'), ("lit", None, "null")]
    pats = [N(0), ("_",), ("lit", cI(1), "1"), ("lit", cI(5), "5"), ("lit", ["s", "x"], '"x"'), ("lit", None, "null"), ("literally", "(2 + 3)", cI(5)),
            ("literally", "k5", cI(5))]
    # sequence shapes without splat
    for Ln in range(0, 4):
        choices = [atoms(i) if (tier != "quick" or Ln <= 2) else atoms(i)[:3] for i in range(Ln)]
        for combo in itertools.product(*choices):
            pats.append(("seq", list(combo), "comma"))
            if Ln in (0, 2) and all(c[0] in ("name", "_") for c in combo):
                pats.append(("seq", list(combo), "bracket"))
    # one splat at every position
    for Ln in range(0, 3):
        for combo in itertools.product(*[atoms(i)[:3] for i in range(Ln)]):
            for pos in range(Ln + 1):
                items = list(combo[:pos]) + [("splat", "r")] + list(combo[pos:])
                pats.append(("seq", items, "comma"))
    # nesting depth 2
    inner = [("seq", [N(1), N(2)], "comma"), ("seq", [N(1), ("splat", "r")], "comma"), ("seq", [("lit", cI(2), "2"), N(2)], "comma")]
    for inn in inner:
        pats.append(("seq", [N(0), inn], "comma"))
        pats.append(("seq", [inn, N(0)], "comma"))
        pats.append(("seq", [inn, ("splat", "q")], "comma"))
    # annotations
    for T in TYPES:
        pats.append(("ann", N(0), T))
    pats += [("seq", [("ann", N(0), "int"), ("ann", N(1), "str")], "comma"), ("seq", [("ann", N(0), "int"), N(1)], "comma"),
             ("ann", ("seq", [N(0), N(1)], "bracket"), "list"), ("ann", ("_",), "int"),
             ("annparts", ("seq", [N(0), N(1)], "comma"), "int"), ("annparts", ("seq", [N(0), N(1)], "comma"), "str"), ("annparts", ("seq", [N(0), N(1)], "comma"), "number"),
             ("annparts", ("seq", [N(0), N(1)], "comma"), "list"), ("annparts", ("seq", [N(0), ("seq", [N(1), N(2)], "comma")], "comma"), "int"),
             ("annparts", ("seq", [N(0), ("splat", "r")], "comma"), "int"), ("annparts", ("seq", [N(0), N(1), N(2)], "comma"), "anything"), ("seq", [("ann", ("_",), "number"), ("splat", "r")], "comma")]
    # or / and
    pats += [("or", ("lit", cI(1), "1"), ("lit", cI(5), "5")), ("or", ("lit", cI(1), "1"), N(0)), ("or", ("seq", [N(0), N(1)], "comma"), N(2)),
             ("or", ("ann", N(0), "int"), ("ann", N(1), "str")), ("and", N(0), N(1)), ("and", N(0), ("seq", [N(1), N(2)], "comma")),
             ("and", ("ann", N(0), "list"), ("seq", [N(1), ("splat", "r")], "comma")), ("or", ("seq", [N(0)], "comma"), ("seq", [N(0), ("_",)], "comma")),
             # alternatives that share a name, the first of which binds it before it fails (a failed alternative leaves nothing behind)
             ("or", ("seq", [N(0), ("lit", cI(1), "1")], "comma"), ("seq", [N(0), ("lit", cI(2), "2")], "comma")),
             ("or", ("seq", [N(0), ("ann", N(1), "str")], "comma"), ("seq", [N(0), N(1)], "comma")),
             ("or", ("seq", [N(0), ("lit", cI(9), "9")], "bracket"), N(0)), ("or", ("and", N(0), ("lit", cI(5), "5")), ("and", N(0), N(1))),
             ("or", ("struct", "P", [N(0), ("lit", cI(9), "9")]), ("struct", "P", [N(0), N(1)])),
             ("or", ("or", ("seq", [N(0), ("lit", cI(8), "8")], "comma"), ("seq", [N(0), ("lit", cI(9), "9")], "comma")), ("seq", [N(0), N(1)], "comma"))]
    # struct patterns
    pats += [("struct", "P", [N(0), N(1)]), ("struct", "P", [N(0), ("lit", cI(2), "2")]), ("struct", "P", [N(0)]), ("struct", "Q", [N(0)]),
             ("struct", "P", [N(0), ("seq", [N(1), N(2)], "comma")]), ("struct", "P", [("_",), ("_",)])]
    # operator patterns
    pats += [("annsplatseq", "int", "list"), ("annsplatseq", "int", "int"), ("annsplatseq", "anything", "str"), ("annsplatseq", "int", "dict"),
             ("annsplatseq", "anything", "anything"), ("annsplatseq", "str", "list"),
             ("cons2", "h", "n0", "t"), ("snoc2", "t", "n0", "h"), ("plus2", "n0", 1, 2), ("plus2", "n0", 5, 1),
             ("cons", "h", "t"), ("snoc", "t", "h"), ("plus", "n0", 1), ("plusl", 1, "n0"), ("plus", "n0", 5), ("times", "n0", 2), ("times", "n0", 3), ("times", "n0", 0),
             ("neg", "n0"), ("frac", "n0", "n1"), ("cmphole", 1, 9), ("cmphole", 0, 2), ("cmp2", "n0", "n1"),
             ("neglit", 1), ("neglit", 5), ("fraclit", "n0", 2), ("fraclit", "n0", 1), ("fraclit", "n0", 4), ("conslit", 1, "t"), ("conslit", 5, "t"),
             ("conslit", 9, "t"), ("snoclit", "t", 2), ("snoclit", "t", 9), ("seq", [N(0), ("neglit", 1)], "comma"), ("seq", [("fraclit", "n0", 2), N(1)], "comma")]
    return pats


CONTEXTS = ["declare", "assign", "lambda", "for", "switch", "catch",
            # the scoped contexts again with every name of the pattern already declared in the enclosing scope: the construct's own
            # scope shadows them, binding works exactly as before
            "lambda_s", "for_s", "switch_s", "catch_s"]


def result_expr(names):
    return "[%s]" % ", ".join('(try %s catch _ -> "U")' % n for n in names)


def program(ctx, pat, vsrc):
    names = names_of(pat)
    if ctx.endswith("_s"):
        return "".join('%s := "PRE"; ' % n for n in names) + program(ctx[:-2], pat, vsrc)
    res = result_expr(names)
    if ctx == "declare":
        if pat[0] == "annparts":       # an annotated group declares with `=`
            return "%s = %s; %s" % (src_of(pat, top=True), vsrc, res)
        return "%s := %s; %s" % (src_of(pat, top=True), vsrc, res)
    if ctx == "assign":
        decl = "; ".join("%s := \"U0\"" % n for n in names)
        return "%s%s = %s; %s" % (decl + "; " if decl else "", src_of(pat, top=True), vsrc, res.replace('"U"', '"U"'))
    if ctx == "lambda":
        return "(\\%s -> %s)(%s)" % (src_of(pat), res, vsrc)
    if ctx == "for":
        return "for (%s <- [%s]) yield %s" % (src_of(pat, top=True), vsrc, res)
    if ctx == "switch":
        return 'switch (%s) case %s -> %s case _ -> "NOMATCH"' % (vsrc, src_of(pat, top=True), res)
    if ctx == "catch":
        return 'try (try throw %s catch %s -> %s) catch e -> ["RETHROWN", e]' % (vsrc, src_of(pat, top=True), res)
    raise KeyError(ctx)


def expected(ctx, pat, vcanon):
    """-> ("value", canon) | "raise" | NA"""
    m = match(pat, vcanon)
    if m == NA:
        return NA
    names = names_of(pat)
    shadow = ctx.endswith("_s")
    if shadow:
        ctx = ctx[:-2]
    if m == FAIL:
        if ctx == "switch":
            return ("value", ["s", "NOMATCH"])
        if ctx == "catch":
            return ("rethrown",)
        return "raise"
    vals = []
    for n in names:
        if n in m:
            vals.append(m[n])
        else:
            vals.append(["s", "U0"] if ctx == "assign" else ["s", "PRE"] if shadow else ["s", "U"])
    res = ["l", vals]
    if ctx == "for":
        res = ["l", [res]]
    return ("value", res)


# ---------------------------------------------------------------- enumeration
def bounds(tier):
    return {"patterns": len(pattern_pool(tier)), "values": len(VALUES), "contexts": CONTEXTS, "types": TYPES,
            "switch_arms": 2 if tier == "quick" else 3, "assignment_history_len": 2 if tier == "quick" else 3}


ARM_POOL_IDX = None


def arm_pool(tier):
    pats = pattern_pool(tier)
    keep = []
    for p in pats:
        s = src_of(p, top=True)
        if len(keep) < 400:
            keep.append(p)
    sel = keep[::max(1, len(keep) // (14 if tier == "quick" else 30))]
    return sel


HIST_TYPES = ["int", "number", "list", "str", "anything", "satisfying(even)", "P", "stream", "vector", "dict", "bytes"]
HIST_VALS = ["i0", "i5", "i6", "f15", "sx", "l12", "null", "p12", "st2", "v12", "d1", "b12"]


def hist_stmts():
    out = []
    for v in HIST_VALS:
        out.append(("x = %s" % VAL[v][1]))
        out.append(("every x = %s" % VAL[v][1]))
        out.append(("x, y = %s, %s" % (VAL[v][1], "0")))
        out.append(("y = %s; swap x, y" % VAL[v][1]))
        out.append(("y = %s; swap y, x" % VAL[v][1]))      # the annotated variable as the second target
        out.append(("x[0] = %s" % VAL[v][1]))
    out += ["x[0], x[1] = 7, 8", "swap x[0], x[1]", "every x[0:2] = 9", "x[1] = [1]", 'x[0] = "s"', "x[0] = 1.5", "x[1] += 1",
            "x += 1", "x += 1.5", "x append= 1", 'x $= "s"', "x *= 2", "x .= str", "x[0] += 1.5", "x[0] append= 1", "x max= 7", "x = x", "x //= 2",
            "x ++= [1]", "x /= 2", "y = 1.5; swap y, x[0]", "y = [1.5, null]; swap y[1], x[0]", "y, x = 0, 1.5", "y, x[0] = 0, null"]
    return out


# ---------------------------------------------------------------- defaults ("defaults fill missing trailing items")
# target list items: "n" plain name, "d" name with default, "a" int-annotated name with default, "s" splat
DEF_CTX = ["params", "nested", "for", "switch", "catch"]


def def_shapes(tier):
    maxlen = 3 if tier == "quick" else 4
    out = []
    for Ln in range(0, maxlen + 1):
        for combo in itertools.product("ndas", repeat=Ln):
            if combo.count("s") > (1 if Ln < maxlen else 2) or (Ln == maxlen and tier != "quick" and combo.count("a") > 1):
                continue
            out.append("".join(combo))
    return out


def def_items(shape, paren):
    items = []
    for i, k in enumerate(shape):
        if k == "n":
            items.append("t%d" % i)
        elif k == "d":
            items.append(("(t%d = %d)" if paren else "t%d = %d") % (i, 90 + i))
        elif k == "a":
            items.append(("(t%d: int = %d)" if paren else "t%d: int = %d") % (i, 90 + i))
        else:
            items.append("...t%d" % i)
    return items


def def_program(ctx, shape, n, mode):
    args = ", ".join(str(j + 1) if mode == "ints" else '"s%d"' % (j + 1) for j in range(n))
    res = result_expr(["t%d" % i for i in range(len(shape))])
    if ctx == "params":
        return "(\\%s -> %s)(%s)" % (", ".join(def_items(shape, False)), res, args)
    items = def_items(shape, True)
    pat = ", ".join(items) + ("," if len(items) == 1 else "")
    if not items:
        pat = "[]"
    if ctx == "nested":
        return "(\\(%s) -> %s)([%s])" % (pat, res, args)
    if ctx == "for":
        return "for (%s <- [[%s]]) yield %s" % (pat, args, res)
    if ctx == "switch":
        return 'switch ([%s]) case %s -> %s case _ -> "NOMATCH"' % (args, pat, res)
    if ctx == "catch":
        return 'try (try throw [%s] catch %s -> %s) catch e -> ["RETHROWN", e]' % (args, pat, res)
    raise KeyError(ctx)


def def_expected(shape, n, mode):
    """declarative reading: the k non-splat targets take the n supplied values; targets past the supplied ones take their
    defaults (raise if one has none); a splat takes what is left over in the middle; without a splat n may not exceed k.
    -> list of canon values per target, or "raise" """
    if shape.count("s") > 1:
        return "raise"
    sup = [cI(j + 1) if mode == "ints" else ["s", "s%d" % (j + 1)] for j in range(n)]
    tg = [(i, k) for i, k in enumerate(shape) if k != "s"]
    k = len(tg)
    sidx = shape.find("s")
    out = {}
    if n < k:
        for j, (i, kind) in enumerate(tg):
            if j < n:
                out[i] = sup[j]
            elif kind in "da":
                out[i] = cI(90 + i)
            else:
                return "raise"
        if sidx >= 0:
            out[sidx] = ["l", []]
    else:
        if sidx < 0:
            if n != k:
                return "raise"
            for j, (i, kind) in enumerate(tg):
                out[i] = sup[j]
        else:
            pre = [t for t in tg if t[0] < sidx]
            post = [t for t in tg if t[0] > sidx]
            for j, (i, kind) in enumerate(pre):
                out[i] = sup[j]
            for j, (i, kind) in enumerate(post):
                out[i] = sup[n - len(post) + j]
            out[sidx] = ["l", sup[len(pre):n - len(post)]]
    for i, kind in enumerate(shape):
        if kind == "a" and out[i][0] != "i":
            return "raise"
    return [out[i] for i in range(len(shape))]


def cases(tier, shard, nshards):
    cnt = 0

    def mine():
        nonlocal cnt
        cnt += 1
        return cnt % nshards == shard
    pre = PRE + ["k5 := 5"]
    pats = pattern_pool(tier)
    for pi, pat in enumerate(pats):
        for (lab, vsrc, vc) in VALUES:
            if not mine():
                continue
            for ctx in CONTEXTS:
                if ctx == "assign" and (has_ann(pat) or pat[0] in ("neg", "neglit")):
                    continue     # `(x: T) = v` declares x; `(-x) = v` lexes as an operator-assignment
                yield Case(program(ctx, pat, vsrc), {"k": "pat", "ctx": ctx, "pi": pi, "v": lab, "tier": tier}, pre=pre, opts={"compact": True, "cap": 8})
    # defaults: every target-list shape x every supplied count x binding context
    for shape in def_shapes(tier):
        for n in range(0, len(shape) + 2):
            if not mine():
                continue
            for mode in ("ints", "strs"):
                if mode == "strs" and (n == 0 or "a" not in shape):
                    continue
                for ctx in DEF_CTX:
                    yield Case(def_program(ctx, shape, n, mode), {"k": "def", "ctx": ctx, "shape": shape, "n": n, "mode": mode}, pre=pre, opts={"compact": True, "cap": 8})
    # switch arm sequences
    arms = arm_pool(tier)
    maxarms = 2 if tier == "quick" else 3
    vals = [v for v in VALUES if v[0] in ("i1", "i5", "sx", "l12", "l123", "l0", "p12", "null", "f15", "st2")]
    for n in range(1, maxarms + 1):
        for seq in itertools.product(range(len(arms)), repeat=n):
            if not mine():
                continue
            for (lab, vsrc, vc) in vals:
                body = " ".join("case %s -> [%d, %s]" % (src_of(arms[a], top=True), j, result_expr(names_of(arms[a]))) for j, a in enumerate(seq))
                yield Case("switch (%s) %s" % (vsrc, body), {"k": "switch", "arms": list(seq), "v": lab, "tier": tier}, pre=pre, opts={"compact": True, "cap": 8})
    # types
    for T in TYPES:
        for (lab, vsrc, vc) in VALUES:
            if not mine():
                continue
            yield Case("%s is %s" % (vsrc, T), {"k": "is", "T": T, "v": lab}, pre=pre, opts={"compact": True})
            yield Case("x: %s = %s; x is %s" % (T, vsrc, T), {"k": "decl", "T": T, "v": lab}, pre=pre, opts={"compact": True})
            if T not in ("satisfying(even)", "anything", "func", "type", "nulltype", "number"):
                yield Case("t := %s(%s); [t is %s]" % (T, vsrc, T), {"k": "conv", "T": T, "v": lab}, pre=pre, opts={"compact": True, "step_ms": 1500})
    for (lab, vsrc, vc) in VALUES:
        if mine():
            yield Case("%s is type(%s)" % (vsrc, vsrc), {"k": "law", "v": lab, "law": "v is type(v)"}, pre=pre, opts={"compact": True})
            yield Case("%s is anything" % vsrc, {"k": "law", "v": lab, "law": "v is anything"}, pre=pre, opts={"compact": True})
            yield Case("type(%s) is type" % vsrc, {"k": "law", "v": lab, "law": "type(v) is type"}, pre=pre, opts={"compact": True})
    # assignment histories on an annotated variable
    stmts = hist_stmts()
    hl = 2 if tier == "quick" else 3
    for T in HIST_TYPES:
        for v0 in HIST_VALS:
            ok0 = is_type(VAL[v0][2], T)
            if not ok0:
                continue
            for seq in itertools.product(range(len(stmts)), repeat=hl):
                if tier != "quick" and hl == 3 and seq[0] % 3 and seq[1] % 3 and seq[2] % 3:
                    continue     # thinned: at least one statement of every third
                if not mine():
                    continue
                steps = ["x: %s = %s; y := 0" % (T, VAL[v0][1])]
                for s in seq:
                    steps.append(stmts[s])
                    steps.append("x is %s" % T)
                yield Case(steps, {"k": "hist", "T": T, "v0": v0, "seq": list(seq)}, pre=pre, iso=False, opts={"compact": True})


def nontrivial(case, rs):
    return rs[-1].get("st") == "ok"


def vclass(lab):
    c = VAL[lab][2]
    k = ckind(c)
    return {"i": "int", "q": "rational", "f": "float", "s": "str", "l": "list", "d": "dict", "v": "vector", "b": "bytes", "S": "stream",
            "o": "instance", "null": "null", "FUNC": "func", "TYPE": "type"}[k]


def pclass(p):
    t = p[0]
    if t == "seq":
        return "seq%d%s" % (len(p[1]), "+splat" if any(i[0] == "splat" for i in p[1]) else "")
    if t == "ann":
        return "ann:%s" % p[2]
    return t


def judge(case, rs):
    m = case.meta
    k = m["k"]
    r = rs[0]
    st = r.get("st")
    src = case.steps[0]
    if k == "pat":
        pat = pattern_pool(m["tier"])[m["pi"]]
        exp = expected(m["ctx"], pat, VAL[m["v"]][2])
        if exp == NA:
            return []
        sig = "C12 pattern=%s value=%s ctx=%s" % (pclass(pat), vclass(m["v"]), m["ctx"])
        if st in ("panic", "abort", "hang"):
            return [Violation(sig + " result=" + st, "%s -> %s %s" % (src, st, r.get("e")), exp, st)]
        if st == "parse_error":
            return []     # this binding context does not accept the pattern syntactically (e.g. a literal lambda parameter)
        if exp == "raise":
            if st == "ok":
                return [Violation(sig + " result=no-error", "%s gave %s; the reference matcher fails" % (src, json.dumps(r.get("v"))[:200]), "raise", r.get("v"))]
            return []
        if exp[0] == "rethrown":
            if st == "ok" and isinstance(r["v"], list) and r["v"][0] == "l" and r["v"][1] and r["v"][1][0] == ["s", "RETHROWN"]:
                got = norm(r["v"][1][1])
                want = VAL[m["v"]][2]
                if want in ("FUNC", "TYPE") or ceq(got, want) or got == norm(want):
                    return []
            return [Violation(sig + " result=not-rethrown", "%s -> %s %s; a non-matching catch pattern must re-raise the original" % (src, st, json.dumps(r.get("v", r.get("e")))[:200]), "rethrown", r.get("v"))]
        if st != "ok":
            return [Violation(sig + " result=" + str(st), "%s -> %s %s; reference binds %s" % (src, st, r.get("e"), json.dumps(exp[1])[:200]), exp[1], st)]
        if not same(norm(r["v"]), exp[1]):
            return [Violation(sig + " result=wrong-bindings", "%s gave %s; reference binds %s" % (src, json.dumps(norm(r["v"]))[:250], json.dumps(exp[1])[:250]), exp[1], norm(r["v"]))]
        return []
    if k == "def":
        exp = def_expected(m["shape"], m["n"], m["mode"])
        ctx = m["ctx"]
        rel = "fewer" if m["n"] < len(m["shape"].replace("s", "")) else ("exact" if m["n"] == len(m["shape"].replace("s", "")) else "more")
        sig = "C12 defaults shape=%s supplied=%s ctx=%s" % (m["shape"], rel, ctx)
        if st in ("panic", "abort", "hang"):
            return [Violation(sig + " result=" + st, "%s -> %s %s" % (src, st, r.get("e")), exp, st)]
        if st == "parse_error":
            return [Violation(sig + " result=parse-error", "%s does not parse: %s" % (src, r.get("e")), exp, st)]
        if exp == "raise":
            if ctx == "switch":
                ok = st == "ok" and norm(r["v"]) == ["s", "NOMATCH"]
            elif ctx == "catch":
                ok = st == "ok" and isinstance(r["v"], list) and r["v"][0] == "l" and r["v"][1] and r["v"][1][0] == ["s", "RETHROWN"]
            else:
                ok = st not in ("ok",)
            if not ok:
                return [Violation(sig + " result=no-error", "%s gave %s %s; the target list cannot take these values" % (src, st, json.dumps(r.get("v", r.get("e")))[:200]), "raise", r.get("v"))]
            return []
        want = ["l", exp]
        if ctx == "for":
            want = ["l", [want]]
        if st != "ok" or not same(norm(r["v"]), want):
            return [Violation(sig + " result=wrong-bindings", "%s -> %s %s; expected bindings %s" % (src, st, json.dumps(r.get("v", r.get("e")))[:250], json.dumps(want)[:250]), want, r.get("v"))]
        return []
    if k == "switch":
        arms = arm_pool(m["tier"])
        vc = VAL[m["v"]][2]
        want = None
        for j, a in enumerate(m["arms"]):
            mm = match(arms[a], vc)
            if mm == NA:
                return []
            if mm != FAIL:
                names = names_of(arms[a])
                want = ["l", [cI(j), ["l", [mm.get(n, ["s", "U"]) for n in names]]]]
                break
        sig = "C12 switch arms=%d value=%s" % (len(m["arms"]), vclass(m["v"]))
        if st in ("panic", "abort", "hang"):
            return [Violation(sig + " result=" + st, "%s -> %s %s" % (src, st, r.get("e")), want, st)]
        if want is None:
            if st == "ok":
                return [Violation(sig + " result=no-error", "%s gave %s; no arm matches" % (src, json.dumps(r.get("v"))[:200]), "raise", r.get("v"))]
            return []
        if st != "ok" or not same(norm(r["v"]), want):
            return [Violation(sig + " result=wrong-arm", "%s -> %s %s; first matching arm gives %s" % (src, st, json.dumps(r.get("v", r.get("e")))[:200], json.dumps(want)[:200]), want, r.get("v"))]
        return []
    if k == "is":
        want = is_type(VAL[m["v"]][2], m["T"])
        if want is None:
            return []
        sig = "C12 is T=%s value=%s" % (m["T"], vclass(m["v"]))
        if st != "ok":
            return [Violation(sig + " result=" + str(st), "%s -> %s %s" % (src, st, r.get("e")), int(want), st)]
        if norm(r["v"]) != cI(int(want)):
            return [Violation(sig + " result=wrong-answer", "%s gave %s, the classification says %d" % (src, r["v"], int(want)), int(want), r["v"])]
        return []
    if k == "decl":
        want = is_type(VAL[m["v"]][2], m["T"])
        if want is None:
            return []
        sig = "C12 declare T=%s value=%s" % (m["T"], vclass(m["v"]))
        if st in ("panic", "abort", "hang"):
            return [Violation(sig + " result=" + st, "%s -> %s" % (src, r.get("e")), None, st)]
        if want and (st != "ok" or norm(r["v"]) != cI(1)):
            return [Violation(sig + " result=rejected-or-not-is", "%s -> %s %s" % (src, st, r.get("v", r.get("e"))), 1, st)]
        if not want and st == "ok":
            return [Violation(sig + " result=accepted-wrong-type", "%s -> %s" % (src, r.get("v")), "raise", r.get("v"))]
        return []
    if k == "conv":
        sig = "C12 convert T=%s value=%s" % (m["T"], vclass(m["v"]))
        if st in ("panic", "abort"):
            return [Violation(sig + " result=" + st, "%s -> %s" % (src, r.get("e")), None, st)]
        if st == "ok" and norm(r["v"]) != ["l", [cI(1)]]:
            return [Violation(sig + " result=conversion-not-of-type", "%s gave %s: T(v) succeeded but `T(v) is T` is false" % (src, r["v"]), 1, r["v"])]
        return []
    if k == "law":
        sig = "C12 law=`%s` value=%s" % (m["law"], vclass(m["v"]))
        if st != "ok" or norm(r["v"]) != cI(1):
            return [Violation(sig + " result=false", "%s -> %s %s" % (src, st, r.get("v", r.get("e"))), 1, r.get("v"))]
        return []
    if k == "hist":
        out = []
        if rs[0].get("st") != "ok":
            return [Violation("C12 history T=%s result=declaration-rejected" % m["T"], "%s -> %s" % (case.steps[0], rs[0].get("e")), "ok", rs[0].get("st"))]
        stmts = hist_stmts()
        for j, s in enumerate(m["seq"]):
            a = rs[1 + 2 * j] if 1 + 2 * j < len(rs) else {"st": "missing"}
            b = rs[2 + 2 * j] if 2 + 2 * j < len(rs) else {"st": "missing"}
            if a.get("st") in ("panic", "abort", "hang"):
                return [Violation("C12 history T=%s stmt=`%s` result=%s" % (m["T"], stmts[s].split(" ")[1] if " " in stmts[s] else stmts[s], a["st"]),
                                  "%s -> %s" % ("; ".join(case.steps[:2 + 2 * j]), a.get("e")), "ok or raise", a["st"])]
            if a.get("st") != "ok":
                return out      # the statement raised: what x holds now is not asserted, stop here
            if b.get("st") != "ok" or norm(b.get("v")) != cI(1):
                shape = stmts[s]
                for v in HIST_VALS:
                    shape = shape.replace(VAL[v][1], "V")
                return [Violation("C12 history T=%s stmt=`%s` result=annotation-not-enforced" % (m["T"], shape),
                                  "%s: the statement completed but `x is %s` is %s" % ("; ".join(case.steps[:2 + 2 * j]), m["T"], b.get("v", b.get("e"))), 1, b.get("v"))]
        return out
    return []


def same(got, want):
    """canon equality where streams compare by elements"""
    def strip(v):
        if isinstance(v, list):
            if v and v[0] == "S":
                return ["S", v[2], v[3]]
            if v and v[0] == "F":
                return "CALLABLE"
            return [strip(x) for x in v]
        if v in ("FUNC", "TYPE"):
            return "CALLABLE"
        return v
    return resort(strip(got)) == resort(strip(want))
