"""C04 - operators are ordinary functions: all application forms agree.

Alphabet: every callable of the global environment (listed from the engine at run time; effectful,
environment-reflecting and random builtins excluded by name) plus user-defined callables (closures of
arity 1/2/3/variadic/with default, struct constructor, memoized, flipped, composed, partially
applied) x every argument tuple from a pool of value kinds (pairs; singles; triples over a
sub-pool) x every application form: a f b, f(a, b), f ! a, b, a `f` b, f(_, b)(a), f(a, _)(b),
(_ f b)(a), (a f _)(b), [a, b] apply f, f of [a, b], f(...[a, b]), f(a, ...[b]), (a f)(b), f(b)(a),
x := a; x f= b; x - and the unary / ternary analogues.
Oracle: all forms of a tuple give the same canonical result and output, or all raise.
"""
import itertools
import json

from ..canon import norm
from ..core import Case, Violation
from .. import engine as E
from . import c14

PROP = "C04"
LEVEL = "exploration"
TECHNIQUE = "bounded exhaustive enumeration of (callable, argument tuple, application form) on the real interpreter; differential oracle across the forms of one tuple"
RULE = ("every (callable, argument tuple) inside the pool bounds is run in every applicable form; non-trivial = the call form f(a, b) "
        "returns a value; distinct by (callable, tuple)")
ASSUMPTIONS = ["functions are compared by their display form, streams by display form and a bounded prefix",
               "effectful, environment-reflecting (vars, eval, input, read*) and random builtins are excluded by name"]
SHARDED = True

SKIP = set(c14.SKIP) | {"eval", "print", "echo", "write", "assert", "throw'", "memoize", "freeze"}
POOL = [
    ("null", "null"), ("int0", "0"), ("int1", "1"), ("intneg", "(-1)"), ("int2", "2"), ("int7", "7"), ("big", "(2^64)"),
    ("rational", "(1/2)"), ("float", "1.5"), ("float1", "1.0"), ("rat1", "(2/2)"), ("fzero", "0.0"), ("negzero", "(-0.0)"),     # 1.0 and 2/2 tie with int1 under ==: which operand a form returns shows in the level ("nan", "(0.0/0.0)"), ("complex", "(1+2i)"),
    ("emptystr", '""'), ("str", '"ab"'), ("ch", '"a"'), ("ch2", '"e"'), ("ustr", '"hé"'), ("emptylist", "[]"), ("list", "[3, 1, 2]"), ("nested", "[[1, 2], [3]]"),
    ("mixed", '[1, "a", null]'), ("dict", '{1: 2, "a": [3]}'), ("set", "{1, 2}"), ("vector", "V(1, 2)"), ("bytes", "B[104, 255]"),
    ("stream", "(1 to 3)"), ("builtin", "(+)"), ("closure", "(\\x -> [x])"), ("closure2", "(\\x, y -> [x, y])"), ("type", "int"),
    # a predicate that fails on some elements of `mixed`: short-circuiting folds must stop (or not) alike in every form
    ("pred", "(\\x -> x > 0)"),
    # a function that prints its argument: the printed output is part of every form's outcome, so a form that calls it more or fewer times differs
    ("noisy", "(\\x -> (print(x); x))"),
]
QUICK = ["null", "int0", "negzero", "int1", "float1", "int2", "rational", "float", "str", "ch", "ch2", "ustr", "list", "mixed", "dict", "stream", "closure", "closure2", "pred", "noisy"]
SUB3 = ["int0", "int2", "str", "ch", "list", "closure2", "null", "stream", "float"]
SUB3_QUICK = ["int2", "str", "ch", "list", "closure2"]     # two different strings: pattern / replacement / subject must be tellable apart

USER = [("c1", "\\a -> [a]"), ("c2", "\\a, b -> [a, b]"), ("c3", "\\a, b, c -> [a, b, c]"), ("cv", "\\...xs -> xs"),
        ("cd", "\\a, b = 5 -> [a, b]"), ("m2", "memoize(\\a, b -> [a, b])"), ("fl", "flip(\\a, b -> [a, b])"),
        ("co", "(\\a -> [a]) >>> (\\a -> [a, a])"), ("pa", "(\\a, b, c -> [a, b, c])(_, 9, _)"), ("plus1", "(+ 1)"),
        ("fan", "(\\a -> a) &&& (\\a -> [a])"), ("par", "(\\a -> [a]) *** (\\a -> a)"), ("onf", "(..) on (\\a -> [a])"),
        # one callable per remaining way the interpreter represents a function value (Func variants of src/core.rs): stored-last /
        # stored-first partial applications, list / chain / index / slice sections with two holes, lifted fan-out, field accessors
        ("pal", "zip([5, 6])"), ("palm", "merge({1: 0})"), ("pa1", "([7, 8] zip)"), ("pa1m", "(1 -)"), ("ls", "[_, 9, _]"), ("chs", "(_ ++ [0] ++ _)"),
        ("ixs", "_[_]"), ("sls", "_[_:_]"), ("lf", "lift((\\a -> [a]), 7, (\\a, b -> [a, b]))"), ("sym", "(::fa)")]
PRE = ["struct Foo (fa, fb)"] + ["p_%s := %s" % (n, s) for n, s in POOL] + ["%s := %s" % (n, s) for n, s in USER]

BIN_FORMS = [
    ("call", "{F}({A}, {B})"), ("infix", "{A} {F} {B}"), ("bang", "{F} ! {A}, {B}"), ("backtick", "{A} `{F}` {B}"),
    ("callsect_l", "{F}(_, {B})({A})"), ("callsect_r", "{F}({A}, _)({B})"), ("chainsect_l", "(_ {F} {B})({A})"),
    ("chainsect_r", "({A} {F} _)({B})"), ("apply", "[{A}, {B}] apply {F}"), ("of", "{F} of [{A}, {B}]"),
    ("splat", "{F}(...[{A}, {B}])"), ("splat_tail", "{F}({A}, ...[{B}])"), ("opassign", "x := {A}; x {F}= {B}; x"),
    ("leftjux", "({A} {F})({B})"), ("rightsect", "{F}({B})({A})"), ("rightsect_probe", "{F}({B})"),
    # sections mixed with splats: a real splat after a hole, a hole after a real splat
    ("sect_then_splat", "{F}(_, ...[{B}])({A})"), ("splat_then_sect", "{F}(...[{A}], _)({B})"), ("bang_sect_splat", "({F} ! _, ...[{B}])({A})"),
    # op-assignment through an index, and with the assigned variable / slot itself as the right operand (judged when A and B are the same value)
    ("opassign_idx", "x := [{A}]; x[0] {F}= {B}; x[0]"), ("opassign_self", "x := {A}; x {F}= x; x"), ("opassign_idx_self", "x := [{A}]; x[0] {F}= x[0]; x[0]"),
]
UN_FORMS = [("call", "{F}({A})"), ("bang", "{F} ! {A}"), ("dot", "{A} . {F}"), ("then", "{A} then {F}"), ("callsect", "{F}(_)({A})"),
            ("apply", "[{A}] apply {F}"), ("of", "{F} of [{A}]"), ("splat", "{F}(...[{A}])"), ("dotgt", "{A} .> {F}"), ("ltdot", "{F} <. {A}")]
TER_FORMS = [("call", "{F}({A}, {B}, {C})"), ("bang", "{F} ! {A}, {B}, {C}"), ("sect1", "{F}(_, {B}, {C})({A})"),
             ("sect2", "{F}({A}, _, {C})({B})"), ("sect12", "{F}(_, _, {C})({A}, {B})"), ("sect3", "{F}({A}, {B}, _)({C})"),
             ("apply", "[{A}, {B}, {C}] apply {F}"), ("of", "{F} of [{A}, {B}, {C}]"), ("splat", "{F}({A}, ...[{B}, {C}])"),
             ("sect_then_splat", "{F}(_, ...[{B}, {C}])({A})"), ("sect_mid_splat", "{F}({A}, _, ...[{C}])({B})"), ("splat_then_sect", "{F}(...[{A}, {B}], _)({C})"),
             # two of three arguments: when f(b, c) is a function it is the section waiting for the FIRST argument
             ("last2", "{F}({B}, {C})({A})"), ("last2_probe", "{F}({B}, {C})"), ("last2_then", "{A} then {F}({B}, {C})"), ("last2_map", "[{A}] map {F}({B}, {C})")]

_G = None


# callables with internal state (a memo table) written inline, so that every form starts from a fresh one: a form must not
# depend on what an earlier form left in the cache. One-argument forms only (an expression cannot stand in infix position).
INLINE_UNARY = ["(memoize(\\a -> [a]))", "(memoize(\\a -> str(a)))", "(memoize(\\a -> a))", "(memoize(len))", "(memoize(\\...xs -> xs))"]


def fns():
    global _G
    if _G is None:
        e = E.Engine()
        try:
            g = e.raw({"globals": 1})["globals"]
        finally:
            e.stop()
        _G = [x[0] for x in g if x[1] and x[0] not in SKIP] + [u[0] for u in USER] + ["Foo"]
    return _G


def bounds(tier):
    return {"callables": len(fns()), "pool": [n for n, _ in POOL] if tier != "quick" else QUICK,
            "triple_subpool": SUB3 if tier != "quick" else SUB3_QUICK,
            "binary_forms": [f for f, _ in BIN_FORMS], "unary_forms": [f for f, _ in UN_FORMS], "ternary_forms": [f for f, _ in TER_FORMS]}


def cases(tier, shard, nshards):
    pool = [n for n, _ in POOL] if tier != "quick" else QUICK
    sub3 = SUB3 if tier != "quick" else SUB3_QUICK
    opts = {"step_ms": 400, "fuel": 20000, "compact": True, "cap": 12, "hang_retry": False}   # a hang only drops the tuple from the comparison
    cnt = 0
    for f in INLINE_UNARY:
        for a in [n for n, _ in POOL]:
            cnt += 1
            if cnt % nshards != shard:
                continue
            yield Case([t.format(F=f, A="p_" + a) for _, t in UN_FORMS], {"ar": 1, "fn": f, "args": [a]}, pre=PRE, opts=opts)
    for f in fns():
        for a in [n for n, _ in POOL]:
            cnt += 1
            if cnt % nshards != shard:
                continue
            A = "p_" + a
            # one-argument forms over the whole pool in both tiers (they are cheap); pairs and triples over the tier's pool
            yield Case([t.format(F=f, A=A) for _, t in UN_FORMS], {"ar": 1, "fn": f, "args": [a]}, pre=PRE, opts=opts)
            if a not in pool:
                continue
            for b in pool:
                B = "p_" + b
                yield Case([t.format(F=f, A=A, B=B) for _, t in BIN_FORMS], {"ar": 2, "fn": f, "args": [a, b]}, pre=PRE, opts=opts)
            if a in sub3:
                for b in sub3:
                    for c in sub3:
                        yield Case([t.format(F=f, A=A, B="p_" + b, C="p_" + c) for _, t in TER_FORMS],
                                   {"ar": 3, "fn": f, "args": [a, b, c]}, pre=PRE, opts=opts)


def nontrivial(case, rs):
    return rs[0].get("st") == "ok"


ORDER_RANDOM = {"group_all"}     # results listed in dict-iteration order (randomised per map): compared as multisets


def loose(v):
    """sort every list recursively: comparison modulo order, for results that depend on dict iteration order"""
    if isinstance(v, list):
        if v and v[0] in ("l", "S") and isinstance(v[1 if v[0] == "l" else 2], list):
            i = 1 if v[0] == "l" else 2
            w = list(v)
            w[i] = sorted((loose(x) for x in v[i]), key=lambda x: json.dumps(x, sort_keys=True))
            if v[0] == "S":
                w[1] = "stream"
            return w
        return [loose(x) for x in v]
    return v


def outcome(r, unordered=False):
    st = r.get("st")
    if st == "ok":
        v = norm(r.get("v"))
        if unordered:
            v = loose(v)
            return ("ok", json.dumps(v, sort_keys=True), "".join(sorted(r.get("o", ""))))
        return ("ok", json.dumps(v, sort_keys=True), r.get("o", ""))
    if st in ("throw", "control"):
        return ("raise",)
    if st == "parse_error":
        return None
    return ("crash", st)


FUNC_KINDS = ("builtin", "closure", "closure2", "type", "pred", "noisy")


def judge(case, rs):
    m = case.meta
    forms = {1: UN_FORMS, 2: BIN_FORMS, 3: TER_FORMS}[m["ar"]]
    res = {}
    for (name, _), r in zip(forms, rs):
        res[name] = r
    unordered = m["fn"] in ORDER_RANDOM or any(a in ("dict", "set") for a in m["args"])
    _outcome = outcome
    outcome_ = lambda r: _outcome(r, unordered)
    base = outcome_(res["call"])
    if base is None:
        return []
    if any(r.get("st") in ("hang", "abort", "fuel") for r in rs):
        return []   # resource-bound tuple (e.g. an unbounded computation): not compared
    out = []
    src = dict(zip([n for n, _ in forms], case.steps))
    for name, r in res.items():
        if name in ("rightsect", "rightsect_probe", "leftjux", "opassign", "opassign_idx", "opassign_self", "opassign_idx_self", "last2", "last2_probe", "last2_then", "last2_map"):
            continue
        o = outcome_(r)
        if o is None:
            continue
        if o != base:
            out.append(Violation("C04 fn=%s arity=%d form=%s vs call: %s/%s" % (m["fn"], m["ar"], name, o[0], base[0]),
                                 "%s -> %s but %s -> %s" % (src[name], short(r), src["call"], short(res["call"])), base, o))
    if m["ar"] == 2:
        a, b = m["args"]
        if a not in FUNC_KINDS:
            o = outcome_(res["leftjux"])
            if o is not None and o != base:
                out.append(Violation("C04 fn=%s arity=2 form=leftjux vs call: %s/%s" % (m["fn"], o[0], base[0]),
                                     "%s -> %s but %s -> %s" % (src["leftjux"], short(res["leftjux"]), src["call"], short(res["call"])), base, o))
        for oname in ("opassign", "opassign_idx") + (("opassign_self", "opassign_idx_self") if a == b else ()):
            o = outcome_(res[oname])
            if m["fn"][-1] in "<>=!" or (m["fn"] + "=") in fns():
                o = None    # `x <= b` is the operator <=, not `<` op-assignment
            if o is not None and base[0] == "ok" and o != base:
                out.append(Violation("C04 fn=%s arity=2 form=%s vs call: %s/%s" % (m["fn"], oname, o[0], base[0]),
                                     "%s -> %s but %s -> %s" % (src[oname], short(res[oname]), src["call"], short(res["call"])), base, o))
        probe = res["rightsect_probe"]
        if base[0] == "ok" and probe.get("st") == "ok" and isinstance(probe.get("v"), list) and probe["v"][0] == "F":
            o = outcome_(res["rightsect"])
            # f(b) is a function: one-argument calls are right sections, so f(b)(a) must equal f(a, b)
            if o is not None and o != base:
                out.append(Violation("C04 fn=%s arity=2 form=rightsect: f(b)(a) differs from f(a, b)" % m["fn"],
                                     "%s -> %s but %s -> %s" % (src["rightsect"], short(res["rightsect"]), src["call"], short(res["call"])), base, o))
    if m["ar"] == 3:
        probe = res["last2_probe"]
        if base[0] == "ok" and probe.get("st") == "ok" and isinstance(probe.get("v"), list) and probe["v"][0] == "F":
            bad = None
            for name in ("last2", "last2_then"):
                o = outcome_(res[name])
                if o is not None and o != base and bad is None:
                    bad = (name, res[name], o)
            r = res["last2_map"]
            if bad is None and r.get("st") == "ok" and base[0] == "ok":
                want = json.dumps(loose(["l", [json.loads(base[1])]]) if unordered else ["l", [json.loads(base[1])]], sort_keys=True)
                got = outcome_(r)
                if got[1] != want:
                    bad = ("last2_map", r, got)
            if bad is not None:
                # one signature per function whatever the spelling (f(b, c)(a), a then f(b, c), [a] map f(b, c))
                out.append(Violation("C04 fn=%s arity=3 form=last2: f(b, c)(a) differs from f(a, b, c)" % m["fn"],
                                     "%s -> %s but %s -> %s" % (src[bad[0]], short(bad[1]), src["call"], short(res["call"])), base, bad[2]))
    return out[:3]


def short(r):
    return json.dumps({k: r.get(k) for k in ("st", "v", "e", "o") if k in r})[:220]
