"""C08 - numeric equality and ordering are exact and coherent across types.

Alphabet: all ordered pairs of a pool of reals (ints around 2^53/2^63 and far beyond, fractions equal to
and a hair away from floats, +-0.0, +-inf, subnormals) x the ten comparison forms; every list of
length <= 4 over a sub-pool through sort / sort_on / sort with comparator / min / max; every pair of
short sequences for the lexicographic clause; every pair of kinds for the must-raise clause.
Oracle: exact comparison through Fraction(float); sorted output must be ordered, a permutation
and stable; min/max extreme; incomparable kinds raise.
"""
import itertools
import json
import math
from fractions import Fraction

from ..canon import cI, cQ, cF, norm, num_value, hex2f, lit_int, lit_frac, lit_float
from ..core import Case, Violation

PROP = "C08"
LEVEL = "exploration"
TECHNIQUE = "bounded exhaustive enumeration of value pairs / short lists on the real interpreter, exact-rational order as reference"
RULE = ("every ordered pair of the real pool x comparison form, every list of length<=4 over the sub-pool, every pair "
        "of short sequences and every pair of kinds is run once; non-trivial = operands differ in level or value; distinct by program text")
ASSUMPTIONS = ["Fraction(float) is the exact value of a float", "laws involving NaN or complex ordering are not asserted"]
SHARDED = True

CMP = ["==", "!=", "<", "<=", ">", ">=", "<=>", ">=<"]


def reals(tier):
    P = []

    def add(c, src):
        P.append((c, src))
    ints = [0, 1, -1, 2, 2 ** 53 - 1, 2 ** 53, 2 ** 53 + 1, 2 ** 63 - 1, 2 ** 63, 2 ** 63 + 1, -2 ** 63, -2 ** 63 - 1,
            2 ** 64, 2 ** 1000, -(2 ** 1000), 2 ** 1024]
    if tier == "tiny":
        ints = [0, 1, -1, 2 ** 53, 2 ** 53 + 1, 2 ** 63, -2 ** 63 - 1, 2 ** 64, 2 ** 1024]
    for v in ints:
        add(cI(v), lit_int(v))
    add(cI(1), "((2^70+1)-2^70)")
    fr = [Fraction(1, 2), Fraction(-1, 2), Fraction(1, 3), Fraction(3602879701896397, 36028797018963968),  # == 0.1
          Fraction(3602879701896397, 36028797018963968) + Fraction(1, 2 ** 80),
          Fraction(2 ** 54 + 1, 2), Fraction(2 ** 64 + 1, 2 ** 64), Fraction(-(2 ** 100) - 1, 3), Fraction(1, 2 ** 1080),
          Fraction(2 ** 1030, 3)]
    if tier == "tiny":
        fr = fr[:5] + fr[8:]
    for f in fr:
        add(cQ(f), lit_frac(f))
    add(["q", "2", "1"], "(4/2)")
    add(["q", "1", "1"], "(3/3)")
    fl = [0.0, -0.0, 0.5, -0.5, 0.1, 1.0, 2.0, 2.0 ** 53, 2.0 ** 53 + 2, 2.0 ** 63, -(2.0 ** 63), 2.0 ** 64, 1.7976931348623157e308,
          5e-324, -5e-324, math.inf, -math.inf, 1 / 3]
    if tier == "tiny":
        fl = [0.0, -0.0, 0.5, 0.1, 1.0, 2.0 ** 53, 2.0 ** 63, 2.0 ** 64, 5e-324, math.inf, -math.inf]
    for x in fl:
        add(cF(x), lit_float(x))
    if tier == "thorough":
        # the neighbourhood of every representation boundary: 2^k + d as a literal (a machine word when it fits) and, for word-sized
        # values, also in big representation; the floats at and next to 2^k; fractions a hair (2^-200) away from those floats
        seen = {json.dumps(c) + src for c, src in P}

        def add1(c, src):
            if json.dumps(c) + src not in seen:
                seen.add(json.dumps(c) + src)
                add(c, src)
        for k in (24, 31, 32, 52, 53, 54, 62, 63, 64, 65, 100, 127, 128, 1023, 1024):
            for sign in (1, -1):
                for d in (-2, -1, 0, 1, 2):
                    v = sign * (2 ** k + d)
                    add1(cI(v), lit_int(v))
                    if -2 ** 63 <= v < 2 ** 63 and d in (-1, 0, 1):
                        add1(cI(v), "((2^70+%d)-2^70)" % v if v >= 0 else "((2^70-%d)-2^70)" % (-v))
                if k <= 1023:
                    x = sign * 2.0 ** k
                    for y in (x, math.nextafter(x, math.inf), math.nextafter(x, -math.inf)):
                        add1(cF(y), lit_float(y))
                        if k in (53, 63, 64):
                            add1(cQ(Fraction(y) + Fraction(1, 2 ** 200)), lit_frac(Fraction(y) + Fraction(1, 2 ** 200)))
                            add1(cQ(Fraction(y) - Fraction(1, 2 ** 200)), lit_frac(Fraction(y) - Fraction(1, 2 ** 200)))
    # real numbers held at the complex level (zero imaginary part): still compared by exact value with the other levels
    for x, src in ((2.0 ** 53, "(2.0^53 + 0i)"), (0.5, "(0.5 + 0i)"), (1.0, "(1 + 0i)"), (1 / 3, "(1.0/3 + 0i)"), (0.0, "(0.0 + 0i)"), (2.0 ** 64, "(2.0^64 + 0i)")):
        add(["c", cF(x)[1], cF(0.0)[1]], src)
    return P


def exact(c):
    """canon real -> Fraction or +-inf (float)"""
    if c[0] == "c":
        v = hex2f(c[1])
        return v if math.isinf(v) else Fraction(v)
    v = num_value(c)
    if isinstance(v, float):
        if math.isinf(v):
            return v
        return Fraction(v)
    return Fraction(v)


def cmp_exact(a, b):
    ea, eb = exact(a), exact(b)
    return (ea > eb) - (ea < eb)


def ref_cmp(op, a, b):
    c = cmp_exact(a, b)
    return {"==": int(c == 0), "!=": int(c != 0), "<": int(c < 0), "<=": int(c <= 0), ">": int(c > 0),
            ">=": int(c >= 0), "<=>": c, ">=<": -c}[op]


OTHERS = [("null", "null"), ("str", '"a"'), ("list", "[1]"), ("dict", "{1: 2}"), ("vector", "V(1, 2)"),
          ("bytes", "B[1]"), ("func", "(\\x -> x)"), ("type", "int"), ("stream", "(1 to 3)"), ("num", "1"),
          ("nan", "(0.0/0.0)"), ("complex", "(1+2i)")]
COMPARABLE = {("str", "str"), ("list", "list"), ("vector", "vector"), ("bytes", "bytes"), ("num", "num"),
              ("list", "stream"), ("stream", "list"), ("stream", "stream"), ("null", "null")}


def sub_pool():
    return [(cI(1), "1"), (cF(1.0), "1.0"), (["q", "1", "1"], "(2/2)"), (cI(2), "2"), (cF(0.5), "0.5"), (cQ(Fraction(1, 2)), "(1/2)"),
            (cI(2 ** 53 + 1), "(2^53+1)"), (cF(2.0 ** 53), "2.0^53"), (cF(-0.0), "(-0.0)"), (cI(0), "0"),
            (cF(math.inf), "(1.0/0.0)"), (cQ(Fraction(-7, 3)), "(-(7/3))")]


def bounds(tier):
    return {"reals": len(reals(tier)), "comparison_forms": CMP + ["min", "max"], "sort_pool": len(sub_pool()),
            "sort_max_len": 3 if tier == "tiny" else 4, "lex_pool": 4, "kinds": len(OTHERS)}


def cases(tier, shard, nshards):
    R = reals(tier)
    n = 0
    for ca, sa in R:
        for cb, sb in R:
            n += 1
            if n % nshards != shard:
                continue
            for op in CMP:
                yield Case("%s %s %s" % (sa, op, sb), {"k": "cmp", "op": op, "a": ca, "b": cb})
            yield Case("min(%s, %s)" % (sa, sb), {"k": "minmax", "op": "min", "a": ca, "b": cb})
            yield Case("max(%s, %s)" % (sa, sb), {"k": "minmax", "op": "max", "a": ca, "b": cb})
    # sorting / extrema of every short list over the sub-pool
    S = sub_pool()
    maxlen = 3 if tier == "tiny" else 4
    for L in range(0, maxlen + 1):
        for idx in itertools.product(range(len(S)), repeat=L):
            n += 1
            if n % nshards != shard:
                continue
            src = "[%s]" % ", ".join(S[i][1] for i in idx)
            items = [S[i][0] for i in idx]
            for form, prog in (("sort", "sort(%s)" % src), ("sort_cmp", "%s sort (<=>)" % src),
                               ("sort_on", "%s sort_on (\\x -> x)" % src), ("sort_rev", "%s sort (>=<)" % src),
                               ("min", "min(%s)" % src), ("max", "max(%s)" % src)):
                yield Case(prog, {"k": form, "items": items})
    # lexicographic comparison of short sequences
    E = [(cI(1), "1"), (cF(1.0), "1.0"), (cI(2), "2"), (cQ(Fraction(3, 2)), "(3/2)")]
    seqs = []
    for L in range(0, 3):
        for idx in itertools.product(range(len(E)), repeat=L):
            seqs.append(([E[i][0] for i in idx], [E[i][1] for i in idx]))
    for (xa, sa) in seqs:
        for (xb, sb) in seqs:
            n += 1
            if n % nshards != shard:
                continue
            for op in ("<", "==", "<=>", ">="):
                yield Case("[%s] %s [%s]" % (", ".join(sa), op, ", ".join(sb)), {"k": "lex", "op": op, "a": xa, "b": xb, "kind": "list"})
                yield Case("V(%s) %s V(%s)" % (", ".join(sa), op, ", ".join(sb)) if sa and sb else
                           "[%s] %s [%s]" % (", ".join(sa), op, ", ".join(sb)),
                           {"k": "lex", "op": op, "a": xa, "b": xb, "kind": "vector"})
    strs = ["", "a", "b", "ab", "aa", "é", "z"]
    for x in strs:
        for y in strs:
            n += 1
            if n % nshards != shard:
                continue
            for op in ("<", "==", "<=>", ">="):
                yield Case('"%s" %s "%s"' % (x, op, y), {"k": "lexs", "op": op, "a": x, "b": y})
    bs = [[], [1], [2], [1, 2], [1, 1], [255], [1, 0]]
    for x in bs:
        for y in bs:
            n += 1
            if n % nshards != shard:
                continue
            for op in ("<", "==", "<=>", ">="):
                yield Case("B%s %s B%s" % (x, op, y), {"k": "lexb", "op": op, "a": x, "b": y})
    # identity must not matter: a stored value compared with itself (same variable, an alias, the same element reached twice)
    # answers exactly like two separately built equal values - including when that answer is an error (NaN / dict / null elements)
    IDV = ["[1, 2]", "[1, 0.0/0.0]", "[{}]", "[null]", "[[1], [0.0/0.0]]", "V(1.5, 0.0/0.0)", "V(1, 2)", '"ab"', "B[1, 2]", "[1, \"a\"]", "[]",
           "(0.0/0.0)", "{}", "null", "[1.0, 2]", "[(\\q -> q)]", "(1 to 3)", "[1 to 2]"]
    for v in IDV:
        n += 1
        if n % nshards != shard:
            continue
        for op in CMP + ["min", "max", "sort"]:
            if op in ("min", "max"):
                forms = ["%s(%s, %s)" % (op, v, v), "x := %s; %s(x, x)" % (v, op), "x := %s; y := x; %s(x, y)" % (v, op), "x := [%s]; %s(x[0], x[0])" % (v, op)]
            elif op == "sort":
                forms = ["sort([%s, %s])" % (v, v), "x := %s; sort([x, x])" % v, "x := %s; y := x; sort([y, x])" % v, "x := [%s]; sort([x[0], x[0]])" % v]
            else:
                forms = ["%s %s %s" % (v, op, v), "x := %s; x %s x" % (v, op), "x := %s; y := x; x %s y" % (v, op), "x := [%s]; x[0] %s x[0]" % (v, op)]
            yield Case(forms, {"k": "identity", "op": op, "v": v}, iso=True)
    # incomparable kinds must raise for the ordering operators
    for ka, sa in OTHERS:
        for kb, sb in OTHERS:
            n += 1
            if n % nshards != shard:
                continue
            for op in ("<", "<=", ">", ">=", "<=>"):
                yield Case("%s %s %s" % (sa, op, sb), {"k": "kinds", "op": op, "ka": ka, "kb": kb})
            if "func" not in (ka, kb) and "type" not in (ka, kb):  # a function argument of max is a key/comparator
                yield Case("max(%s, %s)" % (sa, sb), {"k": "kinds", "op": "max", "ka": ka, "kb": kb})
            yield Case("sort([%s, %s])" % (sa, sb), {"k": "kinds", "op": "sort", "ka": ka, "kb": kb})
            yield Case("%s == %s" % (sa, sb), {"k": "kindeq", "op": "==", "ka": ka, "kb": kb})
            # the running-extremum implementation behind `yield .. into max / min` answers (value or error) like the call on the list
            for f in ("max", "min"):
                yield Case(["%s([%s, %s])" % (f, sa, sb), "for (x_ <- [%s, %s]) yield x_ into %s" % (sa, sb, f),
                            "%s([%s, %s, %s])" % (f, sb, sa, sb), "for (x_ <- [%s, %s, %s]) yield x_ into %s" % (sb, sa, sb, f)],
                           {"k": "identity2", "op": "into-" + f, "v": "%s,%s" % (ka, kb)}, iso=True)
    S_ = sub_pool()
    for L in (1, 2, 3):
        for idx in itertools.product(range(len(S_)), repeat=L):
            n += 1
            if n % nshards != shard:
                continue
            src_ = "[%s]" % ", ".join(S_[i][1] for i in idx)
            for f in ("max", "min"):
                yield Case(["%s(%s)" % (f, src_), "for (x_ <- %s) yield x_ into %s" % (src_, f)], {"k": "identity2", "op": "into-" + f, "v": "reals"}, iso=True)


def nontrivial(case, rs):
    m = case.meta
    if m["k"] in ("cmp", "minmax"):
        return m["a"] != m["b"]
    return True


def rclass(c):
    if c[0] == "c":
        return "complex:real"
    v = num_value(c)
    lvl = {"i": "int", "q": "rational", "f": "float"}[c[0]]
    if isinstance(v, float) and math.isinf(v):
        return "float:inf"
    big = abs(Fraction(v).numerator).bit_length() > 53 or Fraction(v).denominator.bit_length() > 53
    return lvl + (":wide" if big else "")


def crashed(st):
    return st in ("panic", "abort", "hang")


def lexcmp(a, b):
    for x, y in zip(a, b):
        c = cmp_exact(x, y)
        if c:
            return c
    return (len(a) > len(b)) - (len(a) < len(b))


def opval(op, c):
    return {"==": int(c == 0), "<": int(c < 0), "<=>": c, ">=": int(c >= 0)}[op]


def judge_identity(case, rs):
    m = case.meta
    def oc(r):
        st = r.get("st")
        if st == "ok":
            return ("ok", json.dumps(norm(r.get("v")), sort_keys=True))
        return ("raise",) if st in ("throw", "control") else (st,)
    base = oc(rs[0])
    for src, r in list(zip(case.steps, rs))[1:]:
        if crashed(r.get("st")):
            return [Violation("C08 identity op=%s result=%s" % (m["op"], r.get("st")), "%s -> %s %s" % (src, r.get("st"), r.get("e")), base, r.get("st"))]
        if oc(r) != base:
            return [Violation("C08 identity op=%s result=depends-on-identity" % m["op"],
                              "%s -> %s %s but the same comparison of two separately built values, %s -> %s %s" % (
                                  src, r.get("st"), json.dumps(r.get("v", r.get("e")))[:120], case.steps[0], rs[0].get("st"), json.dumps(rs[0].get("v", rs[0].get("e")))[:120]), base, oc(r))]
    return []


def judge(case, rs):
    m = case.meta
    k = m["k"]
    if k == "identity":
        return judge_identity(case, rs)
    if k == "identity2":      # steps come in pairs that must answer alike
        out = []
        for i in range(0, len(rs) - 1, 2):
            sub = Case(case.steps[i:i + 2], case.meta, iso=True)
            out += judge_identity(sub, rs[i:i + 2])
        return out[:1]
    r = rs[0]
    st = r.get("st")
    src = case.steps[0]
    if k == "cmp":
        exp = cI(ref_cmp(m["op"], m["a"], m["b"]))
        cls = "%s,%s" % (rclass(m["a"]), rclass(m["b"]))
        if st != "ok":
            return [Violation("C08 op=%s class=%s kind=%s" % (m["op"], cls, st), "%s: expected %s, status %s %s" % (src, exp, st, r.get("e")), exp, st)]
        if norm(r["v"]) != exp:
            return [Violation("C08 op=%s class=%s kind=wrong-value" % (m["op"], cls), "%s: expected %s got %s" % (src, exp, r["v"]), exp, r["v"])]
        return []
    if k == "minmax":
        a, b = m["a"], m["b"]
        cls = "%s,%s" % (rclass(a), rclass(b))
        if st != "ok":
            return [Violation("C08 op=%s class=%s kind=%s" % (m["op"], cls, st), "%s: status %s %s" % (src, st, r.get("e")), None, st)]
        c = cmp_exact(a, b)
        got = norm(r["v"])
        if c == 0:
            ok = got in (norm(a), norm(b))
        else:
            want = a if ((c < 0) == (m["op"] == "min")) else b
            ok = got == norm(want)
        if not ok:
            return [Violation("C08 op=%s class=%s kind=wrong-value" % (m["op"], cls), "%s: got %s" % (src, got), None, got)]
        return []
    if k in ("sort", "sort_cmp", "sort_on", "sort_rev", "min", "max"):
        items = m["items"]
        if k in ("min", "max"):
            if not items:
                if st == "ok":
                    return [Violation("C08 op=%s-of-list kind=no-error-on-empty" % k, "%s gave %s" % (src, r["v"]), "raise", r["v"])]
                return []
            if st != "ok":
                return [Violation("C08 op=%s-of-list kind=%s" % (k, st), "%s: status %s %s" % (src, st, r.get("e")), None, st)]
            best = items[0]
            for x in items[1:]:
                c = cmp_exact(x, best)
                if (k == "min" and c < 0) or (k == "max" and c > 0):
                    best = x
            if cmp_exact(r["v"], best) != 0 or norm(r["v"]) not in [norm(x) for x in items]:
                return [Violation("C08 op=%s-of-list kind=wrong-value" % k, "%s: got %s, an extreme is %s" % (src, r["v"], best), best, r["v"])]
            return []
        if st != "ok":
            return [Violation("C08 op=%s kind=%s" % (k, st), "%s: status %s %s" % (src, st, r.get("e")), None, st)]
        got = [norm(x) for x in r["v"][1]]
        rev = k == "sort_rev"
        # stable sort by exact value
        want = sorted([norm(x) for x in items], key=lambda c: ExactKey(c), reverse=False)
        if rev:
            # stable descending: sort by negated key keeping original order among equals
            want = sorted([norm(x) for x in items], key=lambda c: ExactKey(c, True))
        if got != want:
            why = "not a permutation" if sorted(map(str, got)) != sorted(map(str, want)) else (
                "not ordered" if any(cmp_exact(got[i], got[i + 1]) * (-1 if rev else 1) > 0 for i in range(len(got) - 1)) else "not stable")
            return [Violation("C08 op=%s kind=%s" % (k, why.replace(" ", "-")), "%s: got %s want %s" % (src, got, want), want, got)]
        return []
    if k == "lex":
        c = lexcmp(m["a"], m["b"])
        exp = cI(opval(m["op"], c))
        if st != "ok":
            return [Violation("C08 lex kind=%s seq=%s op=%s" % (st, m["kind"], m["op"]), "%s: status %s %s" % (src, st, r.get("e")), exp, st)]
        if norm(r["v"]) != exp:
            return [Violation("C08 lex kind=wrong-value seq=%s op=%s" % (m["kind"], m["op"]), "%s: expected %s got %s" % (src, exp, r["v"]), exp, r["v"])]
        return []
    if k in ("lexs", "lexb"):
        a, b = m["a"], m["b"]
        if k == "lexs":
            a, b = a.encode(), b.encode()   # UTF-8 byte order == code point order
        else:
            a, b = bytes(a), bytes(b)
        c = (a > b) - (a < b)
        exp = cI(opval(m["op"], c))
        if st != "ok":
            return [Violation("C08 %s kind=%s op=%s" % (k, st, m["op"]), "%s: status %s %s" % (src, st, r.get("e")), exp, st)]
        if norm(r["v"]) != exp:
            return [Violation("C08 %s kind=wrong-value op=%s" % (k, m["op"]), "%s: expected %s got %s" % (src, exp, r["v"]), exp, r["v"])]
        return []
    if k == "kinds":
        ka, kb = m["ka"], m["kb"]
        if "nan" in (ka, kb) or "complex" in (ka, kb):
            return []  # not asserted (no crash is C14's)
        comparable = (ka, kb) in COMPARABLE
        if not comparable and st == "ok":
            return [Violation("C08 incomparable kinds=%s,%s op=%s kind=no-error" % (ka, kb, m["op"]), "%s gave %s" % (src, r["v"]), "raise", r["v"])]
        if comparable and st != "ok" and ka == kb and ka in ("str", "list", "vector", "bytes", "num"):
            return [Violation("C08 comparable kinds=%s,%s op=%s kind=%s" % (ka, kb, m["op"], st), "%s: %s" % (src, r.get("e")), "value", st)]
        return []
    if k == "kindeq":
        if "nan" in (m["ka"], m["kb"]):
            return []
        if st != "ok":
            return [Violation("C08 equality kinds=%s,%s kind=%s" % (m["ka"], m["kb"], st), "%s: %s" % (src, r.get("e")), "0/1", st)]
        return []
    return []


class ExactKey:
    def __init__(self, c, rev=False):
        self.c = c
        self.rev = rev

    def __lt__(self, other):
        c = cmp_exact(self.c, other.c)
        return c > 0 if self.rev else c < 0
