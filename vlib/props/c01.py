"""C01 - collections have value semantics: mutation never leaks through an alias.

(a) Explicit-state search. Per scenario (nested lists, dicts with/without default, strings, vectors,
    bytes, struct instances, streams, mixed nesting) a typed start state with pre-built aliasing
    and a menu of mutation statements over the variables a, b, c (copy, nest, index/key/field
    assignment at depth 1-3, op-assignment, every-assignment, pop, remove, swap, consume, x{k = v},
    calling a function that mutates its parameter, for-loop rebinding) is explored breadth-first to
    the depth bound. After EVERY statement the value of every variable and of the closure
    `g := \\-> a` (captures the variable) is compared with a Python copy-on-assignment store.
    States are merged on values + sharing graph + reference counts (DESIGN.md 3.3).
(b) Function sweep: every global callable applied in several call shapes to a variable holding a
    collection of each kind must leave that variable (and an alias taken before) unchanged.
"""
import copy
import itertools
import json

from ..canon import cI, norm, resort
from ..core import Case, Violation
from . import c14

PROP = "C01"
LEVEL = "model_checking"
SEARCH = True
TECHNIQUE = "explicit-state BFS over mutation-statement histories on the real interpreter with a lock-step copy-on-assignment reference store; state merging on values + Rc sharing shape; exhaustive builtin sweep for argument immutability"
RULE = ("search: every statement of the scenario's menu is tried in every reached state up to the depth bound; non-trivial = the statement "
        "is valid in that state. sweep: every (callable, collection kind, call shape)")
SEARCH_NOTE = ("a state is the interpreter after replaying a history in a fresh environment; states are merged on the engine's dump of a, b, c with every "
               "Rc payload annotated by identity and strong count; every transition is compared with the copy-on-assignment model")
ASSUMPTIONS = ["the Python store in this module (deep copy at every binding) is the reference for value semantics",
               "the state of the named variable after a statement that raised is not asserted (history not extended)"]
RAISE = "raise"
SKIP = "skip"      # the model does not define this statement here: executed, not asserted, history not extended
NODEF = "nodefault"


# ---------------------------------------------------------------- model values are canon values
def L(*xs):
    return ["l", list(xs)]


def I(n):
    return cI(n)


def is_int(v):
    return isinstance(v, list) and v and v[0] == "i"


def kind(v):
    if v is None:
        return "null"
    return v[0]


def pyidx(n, i):
    if -n <= i < n:
        return i % n if n else None
    return None


def dict_find(d, key):
    for j, (k, _) in enumerate(d[1]):
        if k == key:
            return j
    return None


def get1(v, p):
    """one path element. Returns sub-value or RAISE"""
    t = kind(v)
    if p[0] == "i":
        i = p[1]
        if t == "l":
            j = pyidx(len(v[1]), i)
            return RAISE if j is None else v[1][j]
        if t == "v":
            j = pyidx(len(v[1]), i)
            return RAISE if j is None else v[1][j]
        if t == "b":
            j = pyidx(len(v[1]), i)
            return RAISE if j is None else I(v[1][j])
        if t == "s":
            bs = v[1].encode()
            j = pyidx(len(bs), i)
            if j is None:
                return RAISE
            try:
                return ["s", bs[j:j + 1].decode()]
            except UnicodeDecodeError:
                return ["b", [bs[j]]]
        if t == "d":
            return get1(v, ("k", I(i)))
        if t == "S":
            j = pyidx(len(v[2]), i)
            return RAISE if j is None else v[2][j]
        return RAISE
    if p[0] == "k":
        if t != "d":
            # `x[1]` on a sequence is an index whatever the menu meant it to be
            return get1(v, ("i", int(p[1][1]))) if is_int(p[1]) else RAISE
        j = dict_find(v, p[1])
        if j is not None:
            return v[1][j][1]
        if len(v) > 2:
            return v[2]
        return RAISE
    if p[0] == "f":
        if t != "o":
            return RAISE
        return v[2][p[1]]
    raise KeyError(p)


def set1(v, p, new):
    """functional update of one path element -> new value or RAISE"""
    t = kind(v)
    v = copy.deepcopy(v)
    if p[0] == "i":
        i = p[1]
        if t == "S":   # assigning into a stream variable first turns it into a list
            v = ["l", v[2]]
            t = "l"
        if t == "l":
            j = pyidx(len(v[1]), i)
            if j is None:
                return RAISE
            v[1][j] = new
            return v
        if t == "v":
            j = pyidx(len(v[1]), i)
            if j is None or kind(new) not in ("i", "q", "f", "c"):
                return RAISE
            v[1][j] = new
            return v
        if t == "b":
            j = pyidx(len(v[1]), i)
            if j is None or not is_int(new) or not (0 <= int(new[1]) <= 255):
                return RAISE
            v[1][j] = int(new[1])
            return v
        if t == "s":
            bs = bytearray(v[1].encode())
            j = pyidx(len(bs), i)
            if j is None or kind(new) != "s" or len(new[1].encode()) != 1:
                return RAISE
            bs[j] = new[1].encode()[0]
            try:
                return ["s", bytes(bs).decode()]
            except UnicodeDecodeError:
                return RAISE
        if t == "d":
            return set1(v, ("k", I(i)), new)
        return RAISE
    if p[0] == "k":
        if t != "d":
            return set1(v, ("i", int(p[1][1])), new) if is_int(p[1]) else RAISE
        j = dict_find(v, p[1])
        if j is not None:
            v[1][j][1] = new
        else:
            v[1].append([p[1], new])
        return v
    if p[0] == "f":
        if t != "o":
            return RAISE
        v[2][p[1]] = new
        return v
    raise KeyError(p)


def getp(v, path):
    for p in path:
        v = get1(v, p)
        if v == RAISE:
            return RAISE
    return v


def setp(v, path, new):
    if not path:
        return new
    sub = get1(v, path[0]) if len(path) > 1 else None
    if len(path) > 1:
        if sub == RAISE:
            return RAISE
        if kind(v) in ("s", "v", "b"):
            return RAISE      # elements of strings / vectors / bytes are not assignable containers
        inner = setp(sub, path[1:], new)
        if inner == RAISE:
            return RAISE
        return set1(v, path[0], inner)
    return set1(v, path[0], new)


def apply_op(op, cur, arg):
    """value of `cur op arg` for the op-assignment operators of the menus"""
    t = kind(cur)
    if op == "append":
        if t == "l":
            return ["l", cur[1] + [arg]]
        if t == "S":
            return RAISE
        return RAISE
    if op == "++":
        if t == "l" and kind(arg) == "l":
            return ["l", cur[1] + arg[1]]
        if t == "v" and kind(arg) == "v":
            return ["v", cur[1] + arg[1]]
        if t == "b" and kind(arg) == "b":
            return ["b", cur[1] + arg[1]]
        return RAISE
    if op == "+":
        if is_int(cur) and is_int(arg):
            return I(int(cur[1]) + int(arg[1]))
        if t == "f" and is_int(arg):
            from ..canon import cF, hex2f
            return cF(hex2f(cur[1]) + int(arg[1]))
        if t == "v" and is_int(arg) and all(is_int(x) for x in cur[1]):
            return ["v", [I(int(x[1]) + int(arg[1])) for x in cur[1]]]
        return RAISE
    if op == "$":
        def disp(x):
            if x is None:
                return "null"
            if kind(x) in ("s", "i"):
                return x[1]
            return None
        a_, b_ = disp(cur), disp(arg)
        if a_ is None or b_ is None:
            return "unmodelled"
        return ["s", a_ + b_]
    raise KeyError(op)


# ---------------------------------------------------------------- statements
# rvalues: ("lit", canon, src) | ("var", name) | ("list", rv, rv) | ("dict", rv)
def rv_src(rv):
    if rv[0] == "lit":
        return rv[2]
    if rv[0] == "var":
        return rv[1]
    if rv[0] == "list":
        return "[%s]" % ", ".join(rv_src(x) for x in rv[1:])
    if rv[0] == "dict":
        return "{1: %s}" % rv_src(rv[1])
    # right-hand sides that themselves mutate a variable (possibly the one being assigned to)
    if rv[0] == "elem":
        return "%s[%d]" % (rv[1], rv[2])
    if rv[0] == "popof":
        return "(pop %s)" % rv[1]
    if rv[0] == "poplist":
        return "[pop %s]" % rv[1]
    if rv[0] == "setthen":
        return "(%s = %s; %s)" % (rv[1], rv_src(rv[2]), rv_src(rv[3]))
    raise KeyError(rv)


def rv_val(rv, store):
    if rv[0] == "lit":
        return copy.deepcopy(rv[1])
    if rv[0] == "var":
        return copy.deepcopy(store[rv[1]])
    if rv[0] == "list":
        return ["l", [rv_val(x, store) for x in rv[1:]]]
    if rv[0] == "dict":
        return ["d", [[I(1), rv_val(rv[1], store)]]]
    if rv[0] == "elem":
        v = get1(store[rv[1]], ("i", rv[2]))
        return RAISE if v == RAISE else copy.deepcopy(v)
    if rv[0] in ("popof", "poplist"):
        cur = store[rv[1]]
        if kind(cur) != "l" or not cur[1]:
            return RAISE
        x = cur[1][-1]
        store[rv[1]] = ["l", copy.deepcopy(cur[1][:-1])]
        return copy.deepcopy(x) if rv[0] == "popof" else ["l", [copy.deepcopy(x)]]
    if rv[0] == "setthen":
        store[rv[1]] = rv_val(rv[2], store)
        return rv_val(rv[3], store)
    raise KeyError(rv)


def path_src(path, fields=("x", "y")):
    out = ""
    for p in path:
        if p[0] == "i":
            out += "[%d]" % p[1]
        elif p[0] == "k":
            out += "[%s]" % p[1][1]
        elif p[0] == "f":
            out += ("::%s" if len(p) > 2 else "[%s]") % fields[p[1]]      # a third component selects the symbol-access spelling
        elif p[0] == "s":
            out += "[%s:%s]" % ("" if p[1] is None else p[1], "" if p[2] is None else p[2])
    return out


# ---- statements whose TARGET is computed from variables while the right-hand side changes those variables: the slot
#      written is the one the index / bound / key expressions named before the right-hand side ran
def _ints(c):
    return [int(x[1]) for x in c[1]] if kind(c) == "l" and all(kind(x) == "i" for x in c[1]) else None


def _scr_assign_c(st):          # a[c] = (c = 1; 7)
    a, c = _ints(st["a"]), st["c"]
    if a is None or kind(c) != "i" or pyidx(len(a), int(c[1])) is None:
        return RAISE
    a[pyidx(len(a), int(c[1]))] = 7
    st["a"], st["c"] = L(*[I(x) for x in a]), I(1)
    return st


def _scr_pop_pop(st):           # a[pop b] = pop b
    a, b = _ints(st["a"]), _ints(st["b"])
    if a is None or b is None or len(b) < 2 or pyidx(len(a), b[-1]) is None:
        return RAISE
    i, v = b[-1], b[-2]
    a[pyidx(len(a), i)] = v
    st["a"], st["b"] = L(*[I(x) for x in a]), L(*[I(x) for x in b[:-2]])
    return st


def _scr_op_c(st):              # a[c] += (c = 2; 5)
    a, c = _ints(st["a"]), st["c"]
    if a is None or kind(c) != "i" or pyidx(len(a), int(c[1])) is None:
        return RAISE
    a[pyidx(len(a), int(c[1]))] += 5
    st["a"], st["c"] = L(*[I(x) for x in a]), I(2)
    return st


def _scr_every_c(st):           # every a[0:c] = (c = 3; 5)
    a, c = _ints(st["a"]), st["c"]
    if a is None or kind(c) != "i":
        return RAISE
    for j in range(len(a))[0:int(c[1])]:
        a[j] = 5
    st["a"], st["c"] = L(*[I(x) for x in a]), I(3)
    return st


def _scr_b0(st):                # a[b[0]] = (b[0] = 2; 9)
    a, b = _ints(st["a"]), _ints(st["b"])
    if a is None or not b or pyidx(len(a), b[0]) is None:
        return RAISE
    a[pyidx(len(a), b[0])] = 9
    b[0] = 2
    st["a"], st["b"] = L(*[I(x) for x in a]), L(*[I(x) for x in b])
    return st


def _scr_set(name, val):
    def f(st):
        st[name] = copy.deepcopy(val)
        return st
    return f


SCRIPTS = {
    "a[c] = (c = 1; 7)": _scr_assign_c, "a[pop b] = pop b": _scr_pop_pop, "a[c] += (c = 2; 5)": _scr_op_c, "every a[0:c] = (c = 3; 5)": _scr_every_c,
    "a[b[0]] = (b[0] = 2; 9)": _scr_b0, "c = 0": _scr_set("c", ["i", "0"]), "c = 1": _scr_set("c", ["i", "1"]), "c = 2": _scr_set("c", ["i", "2"]),
    "c = (-1)": _scr_set("c", ["i", "-1"]), "b = [0, 1, 2]": _scr_set("b", ["l", [["i", "0"], ["i", "1"], ["i", "2"]]]),
    "a = [10, 20, 30]": _scr_set("a", ["l", [["i", "10"], ["i", "20"], ["i", "30"]]]),
}


def menu_dynamic():
    return [("script", src) for src in SCRIPTS]


def stmt_src(s):
    k = s[0]
    if k == "script":
        return s[1]
    if k == "capture":      # the VALUE of the variable goes into a closure (as an argument): later mutations must not reach it
        return "k = (\\v -> \\-> v)(%s%s)" % (s[1], path_src(s[2]))
    if k == "assign":
        return "%s%s = %s" % (s[1], path_src(s[2]), rv_src(s[3]))
    if k == "op":
        return "%s%s %s= %s" % (s[1], path_src(s[2]), s[3], rv_src(s[4]))
    if k == "every":
        return "every %s%s = %s" % (s[1], path_src(s[2]), rv_src(s[3]))
    if k == "everyop":
        return "every %s%s %s= %s" % (s[1], path_src(s[2]), s[3], rv_src(s[4]))
    if k == "pop":
        return "pop %s%s" % (s[1], path_src(s[2]))
    if k == "remove":
        return "remove %s%s" % (s[1], path_src(s[2]))
    if k == "swap":
        return "swap %s%s, %s%s" % (s[1], path_src(s[2]), s[3], path_src(s[4]))
    if k == "consume":
        return "%s = consume %s" % (s[1], s[2])
    if k == "update":
        return "%s = %s{%d = %s}" % (s[1], s[2], s[3], rv_src(s[4]))
    if k == "update2":     # several updates in one pure expression: every key / value sees the variables as they were before the statement
        return "%s = %s{%s}" % (s[1], s[2], ", ".join("%d = %s" % (i, rv_src(v)) for i, v in s[3]))
    if k == "call":
        return "%s = h(%s)" % (s[1], s[2])
    if k == "for":
        return "for (r <- %s) (r = 0)" % s[1]
    if k == "tuple":
        return "%s, %s = %s, %s" % (s[1], s[2], s[3], s[4])
    raise KeyError(s)


def expand_slice(v, path):
    """paths addressed by an `every` target whose path contains one slice element"""
    for n, p in enumerate(path):
        if p[0] == "s":
            base = getp(v, path[:n])
            if base == RAISE or kind(base) not in ("l", "S"):
                return RAISE
            idx = list(range(len(base[1] if kind(base) == "l" else base[2])))[slice(p[1], p[2])]
            return [list(path[:n]) + [("i", i)] + list(path[n + 1:]) for i in idx]
    return [list(path)]


def through_missing_default(v, path):
    """does the path pass - at a non-final position - through a key that is absent from a dict with a default?
    pop / remove create the entry from the default there; assignment forms raise "nothing at key"; neither is documented."""
    for p in path[:-1]:
        if p[0] == "s":
            return False
        if kind(v) == "d" and len(v) > 2:
            key = p[1] if p[0] == "k" else (I(p[1]) if p[0] == "i" else None)
            if key is not None and dict_find(v, key) is None:
                return True
        v = get1(v, p)
        if v == RAISE:
            return False
    return False


def model_apply(store, s):
    """-> new store or RAISE"""
    st = copy.deepcopy(store)
    k = s[0]
    if k == "script":
        return SCRIPTS[s[1]](st)
    if k in ("assign", "op", "every", "everyop") and through_missing_default(st[s[1]], s[2]):
        return SKIP
    if k == "swap" and (through_missing_default(st[s[1]], s[2]) or through_missing_default(st[s[3]], s[4])):
        return SKIP
    if k == "capture":
        v = getp(st[s[1]], s[2])
        if v == RAISE:
            return RAISE
        st["k"] = copy.deepcopy(v)
        return st
    if k == "assign":
        val = rv_val(s[3], st)
        if val == RAISE:
            return RAISE
        new = setp(st[s[1]], s[2], val)
        if new == RAISE:
            return RAISE
        st[s[1]] = new
        return st
    if k == "op":
        cur = getp(st[s[1]], s[2])
        if cur == RAISE:
            return RAISE
        arg = rv_val(s[4], st)       # the old value of the target was read BEFORE the right-hand side runs
        if arg == RAISE:
            return RAISE
        res = apply_op(s[3], cur, arg)
        if res == RAISE:
            return RAISE
        if res == "unmodelled":
            return SKIP
        new = setp(st[s[1]], s[2], res)
        if new == RAISE:
            return RAISE
        st[s[1]] = new
        return st
    if k in ("every", "everyop"):
        paths = expand_slice(st[s[1]], s[2])
        if paths == RAISE:
            return RAISE
        val = rv_val(s[3] if k == "every" else s[4], st)
        for p in paths:
            if k == "every":
                new = setp(st[s[1]], p, copy.deepcopy(val))
            else:
                cur = getp(st[s[1]], p)
                if cur == RAISE:
                    return RAISE
                res = apply_op(s[3], cur, copy.deepcopy(val))
                if res == RAISE:
                    return RAISE
                if res == "unmodelled":
                    return SKIP
                new = setp(st[s[1]], p, res)
            if new == RAISE:
                return RAISE
            st[s[1]] = new
        return st
    if k == "pop":
        cur = getp(st[s[1]], s[2])
        if cur == RAISE or kind(cur) != "l" or not cur[1]:
            return RAISE
        new = setp(st[s[1]], s[2], ["l", cur[1][:-1]])
        if new == RAISE:
            return RAISE
        st[s[1]] = new
        return st
    if k == "remove":
        path = s[2]
        parent = getp(st[s[1]], path[:-1])
        if parent == RAISE:
            return RAISE
        last = path[-1]
        t = kind(parent)
        if last[0] == "s":
            if t != "l":
                return RAISE
            xs = list(parent[1])
            del xs[slice(last[1], last[2])]
            newp = ["l", xs]
        elif t == "l" and (last[0] == "i" or (last[0] == "k" and is_int(last[1]))):
            j = pyidx(len(parent[1]), last[1] if last[0] == "i" else int(last[1][1]))
            if j is None:
                return RAISE
            newp = ["l", parent[1][:j] + parent[1][j + 1:]]
        elif t == "d":
            key = last[1] if last[0] == "k" else I(last[1])
            j = dict_find(parent, key)
            if j is None:
                return RAISE
            newp = copy.deepcopy(parent)
            del newp[1][j]
        else:
            return RAISE
        new = setp(st[s[1]], path[:-1], newp)
        if new == RAISE:
            return RAISE
        st[s[1]] = new
        return st
    if k == "swap":
        v1 = getp(st[s[1]], s[2])
        v2 = getp(st[s[3]], s[4])
        if v1 == RAISE or v2 == RAISE:
            return RAISE
        v1, v2 = copy.deepcopy(v1), copy.deepcopy(v2)
        new = setp(st[s[1]], s[2], v2)
        if new == RAISE:
            return RAISE
        st[s[1]] = new
        new = setp(st[s[3]], s[4], v1)
        if new == RAISE:
            return RAISE
        st[s[3]] = new
        return st
    if k == "consume":
        st[s[1]] = st[s[2]]
        st[s[2]] = None
        if s[1] == s[2]:
            st[s[1]] = store[s[2]]
        return st
    if k == "update2":
        new = copy.deepcopy(st[s[2]])
        for i, rv in s[3]:
            val = rv_val(rv, st)         # st is untouched until the whole expression has a value
            if val == RAISE:
                return RAISE
            new = setp(new, [("i", i)], val)
            if new == RAISE:
                return RAISE
        st[s[1]] = new
        return st
    if k == "update":
        val = rv_val(s[4], st)
        if val == RAISE:
            return RAISE
        new = setp(st[s[2]], [("i", s[3])], val)
        if new == RAISE:
            return RAISE
        st[s[1]] = new
        return st
    if k == "call":
        v = copy.deepcopy(st[s[2]])
        v = setp(v, [("i", 0)], I(7))
        if v == RAISE:
            return RAISE
        v = apply_op("append", v, I(1))
        if v == RAISE:
            return RAISE
        st[s[1]] = v
        return st
    if k == "for":
        if kind(st[s[1]]) in ("l", "d", "s", "v", "b", "S"):
            return st
        return RAISE
    if k == "tuple":
        v3, v4 = copy.deepcopy(st[s[3]]), copy.deepcopy(st[s[4]])
        st[s[1]] = v3
        st[s[2]] = v4
        return st
    raise KeyError(s)


# ---------------------------------------------------------------- scenarios
def lit(c, src):
    return ("lit", c, src)


SEVEN = lit(I(7), "7")
L8 = lit(L(I(8)), "[8]")
ONE = lit(I(1), "1")
VA, VB, VC = ("var", "a"), ("var", "b"), ("var", "c")


def i_(n):
    return ("i", n)


def menu_lists():
    a, b, c = "a", "b", "c"
    m = [
        ("assign", b, [], VA), ("assign", a, [], VB), ("assign", c, [], ("list", VA, VA)), ("assign", c, [], ("list", VA, VB)),
        ("assign", a, [i_(0)], VB), ("assign", a, [i_(0)], SEVEN), ("assign", a, [i_(1)], L8), ("assign", a, [i_(0), i_(0)], SEVEN),
        ("assign", b, [i_(0), i_(0)], lit(I(6), "6")), ("assign", c, [i_(0), i_(0)], lit(I(5), "5")), ("assign", c, [i_(0), i_(0), i_(0)], lit(I(4), "4")),
        ("assign", a, [i_(-1)], VA),
        # values that are == to what is stored but not identical (level / nesting): a store must still store them
        ("assign", a, [i_(0)], lit(["f", "3ff0000000000000"], "1.0")), ("assign", a, [i_(0), i_(0)], lit(["f", "3ff0000000000000"], "1.0")),
        ("assign", a, [i_(1)], lit(L(["f", "4008000000000000"]), "[3.0]")), ("assign", b, [i_(0)], lit(L(["f", "3ff0000000000000"], I(2)), "[1.0, 2]")),
        ("update", b, a, 0, lit(["f", "3ff0000000000000"], "1.0")),
        ("op", a, [], "append", lit(I(9), "9")), ("op", a, [], "append", VB), ("op", a, [i_(0)], "append", lit(I(9), "9")),
        ("op", b, [i_(0)], "append", lit(I(3), "3")), ("op", c, [i_(0)], "append", lit(I(2), "2")), ("op", a, [], "++", lit(L(I(6)), "[6]")),
        ("op", a, [i_(0)], "++", lit(L(I(6)), "[6]")), ("op", a, [i_(0), i_(0)], "+", ONE), ("op", a, [], "++", VA),
        ("every", a, [("s", 0, 2)], lit(I(0), "0")), ("every", a, [("s", 0, 2), i_(0)], SEVEN), ("everyop", a, [("s", 0, 2)], "append", ONE),
        ("every", a, [("s", 1, None)], VB),
        ("pop", a, []), ("pop", a, [i_(0)]), ("pop", c, [i_(0)]), ("remove", a, [i_(0)]), ("remove", a, [("s", 0, 1)]), ("remove", a, [i_(0), i_(0)]),
        ("swap", a, [], b, []), ("swap", a, [i_(0)], a, [i_(1)]), ("swap", a, [i_(0)], b, [i_(0)]), ("swap", a, [i_(0)], c, []),
        # one slot named twice with different spellings (a no-op), and through an alias of the same list
        ("swap", a, [i_(1)], a, [i_(-1)]), ("swap", a, [i_(-2)], a, [i_(0)]), ("swap", a, [i_(0), i_(0)], a, [i_(0), i_(-2)]), ("swap", a, [i_(0)], a, [i_(0)]),
        ("swap", a, [i_(-1)], b, [i_(-1)]), ("capture", a, []), ("capture", a, [i_(0)]), ("capture", c, []),
        # the right-hand side mutates the variable on the left: the old value was read first, the store goes into the variable as it is afterwards
        ("op", a, [], "++", ("poplist", a)), ("op", a, [], "append", ("popof", a)), ("op", a, [i_(0)], "++", ("poplist", a)),
        ("op", a, [], "append", ("setthen", a, lit(L(I(0)), "[0]"), SEVEN)), ("op", a, [i_(0)], "append", ("setthen", a, lit(L(L(I(0))), "[[0]]"), SEVEN)),
        ("assign", a, [i_(0)], ("popof", a)), ("op", b, [], "++", ("poplist", a)), ("op", a, [], "++", ("setthen", b, lit(L(I(0)), "[0]"), VB)),
        ("consume", c, a), ("update", b, a, 0, lit(I(5), "5")), ("call", c, a), ("for", a), ("tuple", a, b, b, a),
        ("update2", a, a, [(0, ("elem", a, 1)), (1, ("elem", a, 0))]), ("update2", a, a, [(0, SEVEN), (1, ("elem", a, 0))]),
        ("update2", a, a, [(0, SEVEN), (7, ONE)]), ("update2", b, a, [(0, ("elem", a, 1)), (1, ("elem", b, 0))]), ("update", a, a, 0, ("elem", a, 1)),
    ]
    return m


def k_(n):
    return ("k", I(n))


def menu_dicts():
    a, b, c = "a", "b", "c"
    return [
        ("assign", b, [], VA), ("assign", a, [], VC), ("assign", c, [], ("dict", VA)), ("assign", a, [k_(1)], SEVEN), ("assign", a, [k_(3)], L8),
        ("assign", a, [k_(1)], lit(L(["f", "3ff0000000000000"]), "[1.0]")), ("assign", a, [k_(1), i_(0)], lit(["f", "3ff0000000000000"], "1.0")),
        ("assign", b, [k_(2)], lit(L(["f", "4000000000000000"]), "[2.0]")),
        ("assign", a, [k_(1), i_(0)], SEVEN), ("assign", a, [k_(2)], VB), ("assign", c, [k_(1), k_(1), i_(0)], lit(I(4), "4")),
        ("op", a, [k_(1)], "append", lit(I(9), "9")), ("op", b, [k_(2)], "append", lit(I(3), "3")), ("op", c, [k_(1)], "append", lit(I(5), "5")),
        ("op", c, [k_(2)], "append", lit(I(6), "6")), ("op", a, [k_(1)], "++", lit(L(I(6)), "[6]")), ("op", a, [k_(1), i_(0)], "+", ONE),
        ("remove", a, [k_(1)]), ("remove", a, [k_(1), i_(0)]), ("remove", b, [k_(2)]), ("pop", a, [k_(1)]),
        ("swap", a, [], b, []), ("swap", a, [k_(1)], a, [k_(2)]), ("swap", a, [k_(1)], b, [k_(2)]),
        ("swap", a, [k_(1)], a, [k_(1)]), ("swap", a, [k_(1), i_(0)], a, [k_(1), i_(-1)]), ("capture", a, []), ("capture", a, [k_(1)]),
        # through a key that is NOT present in a dict with a (non-empty) default: the entry is created from the default and then changed
        ("pop", c, [k_(7)]), ("remove", c, [k_(7), i_(0)]), ("remove", c, [k_(8), ("s", 0, 1)]), ("op", c, [k_(7), i_(0)], "+", ONE),
        ("assign", c, [k_(9), i_(1)], SEVEN), ("every", c, [k_(7), ("s", 0, 2)], lit(I(0), "0")), ("swap", c, [k_(7), i_(0)], c, [k_(7), i_(1)]),
        # through a key that is not present in a dict WITHOUT default: refused, and the key must not appear
        ("assign", a, [k_(7), i_(0)], SEVEN), ("op", a, [k_(7), i_(0)], "+", ONE), ("every", a, [k_(7), ("s", 0, 2)], lit(I(0), "0")), ("assign", a, [k_(7), k_(1)], SEVEN),
        ("consume", c, a), ("for", a), ("assign", b, [], ("list", VA, VC)), ("assign", b, [i_(0), k_(1), i_(0)], lit(I(2), "2")),
        ("op", b, [i_(1), k_(7)], "append", ONE),
    ]


def menu_flat(kindname):
    a, b, c = "a", "b", "c"
    if kindname == "string":
        v1, v2, cat = lit(["s", "z"], '"z"'), lit(["s", "é"], '"é"'), ("op", a, [], "$", lit(["s", "q"], '"q"'))
    elif kindname == "vector":
        v1, v2, cat = SEVEN, lit(["s", "z"], '"z"'), ("op", a, [], "+", ONE)
    else:
        v1, v2, cat = SEVEN, lit(I(256), "256"), ("op", a, [], "++", VB)
    return [
        ("assign", b, [], VA), ("assign", a, [], VB), ("assign", c, [], ("list", VA, VA)), ("assign", a, [i_(0)], v1), ("assign", a, [i_(1)], v1),
        ("assign", a, [i_(0)], v2), ("assign", b, [i_(-1)], v1), ("assign", c, [i_(0), i_(0)], v1), ("assign", c, [i_(1)], VB), cat,
        ("swap", a, [], b, []), ("swap", a, [i_(0)], a, [i_(1)]), ("swap", a, [i_(0)], b, [i_(0)]), ("swap", c, [i_(0)], a, []),
        ("swap", a, [i_(2)], a, [i_(-1)]), ("swap", c, [i_(0)], c, [i_(-2)]), ("capture", a, []), ("capture", c, []),
        ("consume", c, a), ("for", a), ("assign", a, [i_(5)], v1), ("tuple", a, b, b, a), ("every", c, [("s", 0, 2), i_(0)], v1),
        ("op", c, [], "append", VA),
    ]


def f_(n):
    return ("f", n)


def menu_struct():
    a, b, c = "a", "b", "c"
    return [
        ("assign", b, [], VA), ("assign", a, [], VB), ("assign", c, [], ("list", VA, VA)), ("op", a, [f_(0)], "append", lit(I(5), "5")),
        ("assign", a, [f_(1)], lit(I(9), "9")), ("assign", a, [f_(0), i_(0)], SEVEN), ("assign", a, [f_(1)], lit(["f", "4000000000000000"], "2.0")),
        ("assign", a, [f_(0)], lit(L(["f", "3ff0000000000000"]), "[1.0]")), ("assign", c, [i_(0), f_(1)], lit(["f", "4000000000000000"], "2.0")), ("assign", a, [f_(1)], VA), ("assign", a, [f_(0)], VB),
        ("op", c, [i_(0), f_(0)], "append", ONE), ("assign", c, [i_(1), f_(1)], L8), ("op", a, [f_(1)], "+", ONE), ("op", b, [f_(0)], "++", lit(L(I(6)), "[6]")),
        ("swap", a, [], b, []), ("swap", a, [f_(0)], a, [f_(1)]), ("swap", a, [f_(0)], b, [f_(0)]), ("swap", a, [f_(0), i_(0)], a, [f_(0), i_(-1)]), ("capture", a, []), ("capture", a, [f_(0)]),
        # the same fields through the symbol-access spelling a::x
        ("op", a, [("f", 0, "sym")], "append", lit(I(5), "5")), ("assign", a, [("f", 0, "sym"), i_(0)], SEVEN), ("assign", a, [("f", 1, "sym")], VA),
        ("op", c, [i_(0), ("f", 0, "sym")], "append", ONE), ("swap", a, [("f", 0, "sym")], a, [f_(1)]), ("op", b, [("f", 0, "sym")], "++", lit(L(I(6)), "[6]")),
        ("swap", c, [i_(0), f_(1)], c, [i_(-2), f_(1)]), ("consume", c, a), ("pop", a, [f_(0)]),
        ("remove", a, [f_(0), i_(0)]), ("every", c, [("s", 0, 2), f_(1)], SEVEN), ("tuple", a, b, b, a),
    ]


def menu_stream():
    a, b, c = "a", "b", "c"
    return [
        ("assign", b, [], VA), ("assign", a, [], VB), ("assign", c, [], ("list", VA, VA)), ("assign", a, [i_(0)], lit(I(9), "9")),
        ("assign", b, [i_(-1)], SEVEN), ("assign", c, [i_(0), i_(1)], SEVEN), ("op", a, [i_(0)], "+", ONE), ("swap", a, [], b, []),
        ("swap", a, [i_(0)], a, [i_(1)]), ("consume", c, a), ("for", a), ("op", c, [], "append", VA), ("assign", c, [i_(1)], VB),
        ("every", a, [("s", 0, 2)], lit(I(0), "0")), ("op", a, [], "append", ONE), ("pop", a, []), ("update", b, a, 0, lit(I(5), "5")),
    ]


def menu_mixed():
    a, b, c = "a", "b", "c"
    return [
        ("assign", b, [], VA), ("assign", c, [], ("var", "a")), ("op", a, [i_(0), k_(1)], "append", lit(I(2), "2")), ("assign", c, [k_(1), i_(0)], lit(I(5), "5")),
        ("assign", a, [i_(0), k_(2)], VC), ("assign", a, [i_(0)], VC), ("op", b, [i_(0), k_(1)], "++", lit(L(I(6)), "[6]")), ("assign", c, [k_(1)], VA),
        ("swap", a, [i_(0)], c, []), ("swap", a, [i_(0), k_(1)], c, [k_(1)]), ("capture", a, []), ("capture", a, [i_(0)]), ("remove", a, [i_(0), k_(1)]), ("pop", a, [i_(0), k_(1)]),
        ("op", a, [], "append", VC), ("every", a, [("s", 0, 2), k_(1)], L8), ("consume", b, a), ("assign", a, [], ("list", VC, VC)),
        ("assign", a, [i_(1), k_(1), i_(0)], lit(I(4), "4")), ("op", c, [k_(1), i_(0)], "+", ONE), ("tuple", a, c, c, a),
    ]


FOO = lambda x, y: ["o", "Foo", [x, y]]
SCENARIOS = {
    "lists-aliased": {"pre": ["a := [[1, 2], [3]]", "b := a", "c := [a, 5]"], "store": {"a": L(L(I(1), I(2)), L(I(3))), "b": L(L(I(1), I(2)), L(I(3))),
                                                                                       "c": L(L(L(I(1), I(2)), L(I(3))), I(5))}, "menu": menu_lists},
    "lists-fresh": {"pre": ["a := [1, 2, 3]", "b := [[4]]", "c := null"], "store": {"a": L(I(1), I(2), I(3)), "b": L(L(I(4))), "c": None}, "menu": menu_lists},
    "dicts": {"pre": ["a := {1: [1], 2: [2]}", "b := a", "c := {:[5, 6]}"],
              "store": {"a": ["d", [[I(1), L(I(1))], [I(2), L(I(2))]]], "b": ["d", [[I(1), L(I(1))], [I(2), L(I(2))]]], "c": ["d", [], L(I(5), I(6))]}, "menu": menu_dicts},
    "strings": {"pre": ['a := "abc"', "b := a", "c := [a, a]"], "store": {"a": ["s", "abc"], "b": ["s", "abc"], "c": L(["s", "abc"], ["s", "abc"])},
                "menu": lambda: menu_flat("string")},
    "vectors": {"pre": ["a := V(1, 2, 3)", "b := a", "c := [a, a]"], "store": {"a": ["v", [I(1), I(2), I(3)]], "b": ["v", [I(1), I(2), I(3)]],
                                                                                "c": L(["v", [I(1), I(2), I(3)]], ["v", [I(1), I(2), I(3)]])}, "menu": lambda: menu_flat("vector")},
    "bytes": {"pre": ["a := B[1, 2, 3]", "b := a", "c := [a, a]"], "store": {"a": ["b", [1, 2, 3]], "b": ["b", [1, 2, 3]], "c": L(["b", [1, 2, 3]], ["b", [1, 2, 3]])},
              "menu": lambda: menu_flat("bytes")},
    "structs": {"pre": ["struct Foo (x, y)", "a := Foo([1], 2)", "b := a", "c := [a, a]"],
                "store": {"a": FOO(L(I(1)), I(2)), "b": FOO(L(I(1)), I(2)), "c": L(FOO(L(I(1)), I(2)), FOO(L(I(1)), I(2)))}, "menu": menu_struct},
    "streams": {"pre": ["a := 1 to 3", "b := a", "c := [a, a]"],
                "store": {"a": ["S", "1 til 4 by 1", [I(1), I(2), I(3)], "end"], "b": ["S", "1 til 4 by 1", [I(1), I(2), I(3)], "end"],
                          "c": L(["S", "1 til 4 by 1", [I(1), I(2), I(3)], "end"], ["S", "1 til 4 by 1", [I(1), I(2), I(3)], "end"])}, "menu": menu_stream},
    "dynamic-index": {"pre": ["a := [10, 20, 30]", "b := [0, 1, 2]", "c := 0"],
                      "store": {"a": L(I(10), I(20), I(30)), "b": L(I(0), I(1), I(2)), "c": I(0)}, "menu": menu_dynamic},
    "mixed": {"pre": ["a := [{1: [1]}, 0]", "b := a", "c := a[0]"],
              "store": {"a": L(["d", [[I(1), L(I(1))]]], I(0)), "b": L(["d", [[I(1), L(I(1))]]], I(0)), "c": ["d", [[I(1), L(I(1))]]]}, "menu": menu_mixed},
}
COMMON_PRE = ["h := \\v -> (v[0] = 7; v append= 1; v)", "g := \\-> a", "k := \\-> null"]


def starts(tier):
    return sorted(SCENARIOS)


_MENUS = {}


def alphabet(tier, start):
    if start not in _MENUS:
        _MENUS[start] = [json.loads(json.dumps(s)) for s in SCENARIOS[start]["menu"]()]
    return _MENUS[start]


def tup(s):
    """JSON round trip turns tuples into lists; model code indexes both the same way"""
    return s


def depth(tier):
    return 2 if tier == "quick" else 3


def crosscheck_depth(tier):
    return 0 if tier == "quick" else 2


def make_case(tier, start, hist):
    sc = SCENARIOS[start]
    steps = []
    for s in hist:
        steps.append(stmt_src(s))
        steps.append("[g(), k()]")
    return Case(steps, {"kind": "hist", "start": start, "hist": hist}, pre=sc["pre"] + COMMON_PRE, iso=False,
                opts={"dump": ["a", "b", "c"], "shape": True, "cap": 16})


def unshape(v, table=None):
    """strip the sharing annotations of a shape dump"""
    if table is None:
        table = {}
    if isinstance(v, list):
        if v and v[0] == "#":
            inner = unshape(v[3], table)
            table[v[1]] = inner
            return inner
        if v and v[0] == "@":
            return table.get(v[1])
        return [unshape(x, table) for x in v]
    return v


def dump_values(d):
    table = {}
    return {k: norm(unshape(d[k], table)) for k in ("a", "b", "c")}


def replay(start, hist):
    store = copy.deepcopy(SCENARIOS[start]["store"])
    for s in hist:
        r = model_apply(store, s)
        if r in (RAISE, SKIP):
            return r
        store = r
    return store


def extends(case, rs):
    m = case.meta
    n = len(m["hist"])
    return replay(m["start"], m["hist"]) not in (RAISE, SKIP) and len(rs) >= 2 * n and rs[2 * n - 2].get("st") == "ok"


def state_key(case, rs):
    n = len(case.meta["hist"])
    kv = rs[2 * n - 1].get("v") if len(rs) >= 2 * n else None      # what the value-capturing closure holds is part of the state
    return json.dumps([rs[2 * n - 2]["d"], kv[1][1] if isinstance(kv, list) and kv and kv[0] == "l" and len(kv[1]) == 2 else None], sort_keys=True)


def same_value(got, want):
    return resort(got) == resort(norm(want))


def judge(case, rs):
    m = case.meta
    if m["kind"] == "dictalg":
        return judge_dictalg(case, rs)
    if m["kind"] != "hist":
        return judge_sweep(case, rs)
    start, hist = m["start"], m["hist"]
    n = len(hist)
    before = replay(start, hist[:-1])
    if before in (RAISE, SKIP):
        return []
    stmt = hist[-1]
    after = model_apply(before, stmt)
    if after == SKIP:
        return []
    r = rs[2 * n - 2] if len(rs) >= 2 * n - 1 else {"st": "missing"}
    st = r.get("st")
    src = stmt_src(stmt)
    sig = "C01 scenario=%s stmt=`%s`" % (start, src)
    trail = "; ".join(SCENARIOS[start]["pre"] + [stmt_src(s) for s in hist])
    if after == RAISE:
        if st == "ok":
            return [Violation(sig + " result=no-error", "%s: the copy-on-assignment model rejects the last statement, the interpreter accepted it; vars now %s" % (trail, json.dumps(dump_values(r["d"]))[:300]), "raise", "ok")]
        return failed_aftermath(stmt, before, r, sig, trail)
    if st != "ok":
        if st in ("panic", "abort", "hang"):
            return [Violation(sig + " result=" + st, "%s -> %s %s" % (trail, st, r.get("e")), "ok", st)]
        return [Violation(sig + " result=" + str(st), "%s -> %s %s; model expects %s" % (trail, st, r.get("e"), json.dumps(after)[:300]), "ok", st)]
    got = dump_values(r["d"])
    out = []
    for v in ("a", "b", "c"):
        if not same_value(got[v], after[v]):
            role = "target" if v == stmt[1] else "other"
            out.append(Violation(sig + " result=wrong-value var=%s(%s)" % (v, role),
                                 "%s: %s is %s, copy-on-assignment says %s" % (trail, v, json.dumps(got[v])[:300], json.dumps(norm(after[v]))[:300]), norm(after[v]), got[v]))
            break
    if len(rs) >= 2 * n:
        g = rs[2 * n - 1]
        gv = norm(g.get("v")) if g.get("st") == "ok" else None
        ok_shape = isinstance(gv, list) and gv and gv[0] == "l" and len(gv[1]) == 2
        if not ok_shape or not same_value(gv[1][0], after["a"]):
            out.append(Violation(sig + " result=closure-sees-stale-or-wrong-value", "%s: g() is %s but a is %s" % (trail, json.dumps(g.get("v", g.get("e")))[:200], json.dumps(norm(after["a"]))[:200]), norm(after["a"]), g.get("v")))
        elif not same_value(gv[1][1], after.get("k")):
            out.append(Violation(sig + " result=captured-value-changed", "%s: the closure that captured a VALUE now returns %s, it captured %s" % (trail, json.dumps(gv[1][1])[:200], json.dumps(norm(after.get("k")))[:200]), norm(after.get("k")), gv[1][1]))
    return out


def pure_rv(rv):
    return rv[0] in ("lit", "var", "elem") or (rv[0] in ("list", "dict") and all(pure_rv(x) for x in rv[1:]))


def failed_aftermath(stmt, before, r, sig, trail):
    """A statement that raised may leave the slot(s) it addressed in an unspecified state (documented: the target of an
    op-assignment is null while the operator runs and stays null when it raises). Everything else - the other variables,
    and the parts of the target variable the statement did not address - holds what it held before."""
    if r.get("st") not in ("throw", "control") or "d" not in r:
        return []
    k = stmt[0]
    if k in ("update", "update2"):
        got = dump_values(r["d"])
        for v in ("a", "b", "c"):
            if not same_value(got[v], before[v]):
                return [Violation(sig + " result=failed-statement-changed-variable var=%s" % v,
                                  "%s raised while evaluating a pure update expression, and %s is now %s (was %s)" % (trail, v, json.dumps(got[v])[:200], json.dumps(norm(before[v]))[:200]), norm(before[v]), got[v])]
        return []
    if k not in ("op", "everyop", "every", "assign"):
        return []
    rv = stmt[4] if k in ("op", "everyop") else stmt[3]
    if not pure_rv(rv):
        return []
    got = dump_values(r["d"])
    tgt, path = stmt[1], stmt[2]
    for v in ("a", "b", "c"):
        if v != tgt and not same_value(got[v], before[v]):
            return [Violation(sig + " result=failed-statement-changed-other-variable var=%s" % v,
                              "%s raised, and %s is now %s (was %s)" % (trail, v, json.dumps(got[v])[:200], json.dumps(norm(before[v]))[:200]), norm(before[v]), got[v])]
    if not path:
        return []
    old, new = norm(before[tgt]), got[tgt]
    bad = None
    if kind(old) in ("l", "v") and path[0][0] in ("i", "s"):
        n = len(old[1])
        if path[0][0] == "i":
            i = path[0][1]
            addressed = {i if i >= 0 else n + i}
        else:
            lo, hi, _ = slice(path[0][1], path[0][2]).indices(n)
            addressed = set(range(lo, hi))
        if kind(new) != kind(old) or len(new[1]) != n:
            bad = "the variable is no longer a sequence of %d elements" % n
        else:
            for j in range(n):
                if j not in addressed and not same_value(new[1][j], old[1][j]):
                    bad = "element %d, which the statement does not address, changed" % j
                    break
    elif kind(old) == "d" and path[0][0] == "k":
        if kind(new) != "d":
            bad = "the variable is no longer a dict"
        else:
            key = json.dumps(norm(path[0][1]), sort_keys=True)
            o = {json.dumps(e[0], sort_keys=True): e[1] for e in old[1] if json.dumps(e[0], sort_keys=True) != key}
            g = {json.dumps(e[0], sort_keys=True): e[1] for e in new[1] if json.dumps(e[0], sort_keys=True) != key}
            if resort(o) != resort(g):
                bad = "entries under other keys changed"
            elif key not in {json.dumps(e[0], sort_keys=True) for e in old[1]} and key in {json.dumps(e[0], sort_keys=True) for e in new[1]}:
                # the addressed slot of an EXISTING key may be left empty by a failed statement; a key that did not exist must not appear
                bad = "the failed statement created the key it addressed"
    if bad:
        return [Violation(sig + " result=failed-statement-destroyed-unaddressed-parts", "%s raised: %s; %s is now %s (was %s)" % (trail, bad, tgt, json.dumps(new)[:200], json.dumps(old)[:200]), old, new)]
    return []


def tally(case, rs, extra):
    if case.meta["kind"] == "hist":
        extra["scenario:" + case.meta["start"]] += 1


# ---------------------------------------------------------------- (b) function sweep
SWEEP_VALUES = [("list", "[3, 1, 2]"), ("nested", "[[1, 2], [3]]"), ("dict", "{1: [2], 3: 4}"), ("defdict", "({:[0]} || {1: [1]})"), ("string", '"héllo"'),
                ("vector", "V(1, 2, 3)"), ("bytes", "B[1, 255, 3]"), ("instance", "Foo([1], 2)"), ("stream", "(1 to 3)"), ("set", "{1, 2}")]
SWEEP_ARGS = ["1", "0", "[9]", "(\\q -> q)", "(\\q, w -> q)", '"a"', "(+)"]
SKIP = set(c14.SKIP) | {"eval"}


def sweep_shapes(f, X, args):
    return ["%s(%s)" % (f, X), "%s %s %s" % (X, f, X)] + ["%s(%s, %s)" % (f, X, p) for p in args] + ["%s(%s, %s)" % (f, p, X) for p in args] + \
           ["%s %s %s" % (X, f, p) for p in args[:3]] + ["%s(%s, %s, %s)" % (f, X, args[0], args[3 if len(args) > 3 else 0])]


def cases(tier):
    fns = [f for f in c14.fns() if f not in SKIP]
    args = SWEEP_ARGS if tier != "quick" else SWEEP_ARGS[:4]
    for f in fns:
        for kind_, src in SWEEP_VALUES:
            shapes = sweep_shapes(f, "x", args)
            fresh = sweep_shapes(f, "(%s)" % src, args)
            steps = []
            for sh in shapes:
                steps.append('x := %s; y := x; r := try %s catch _ -> "ERR"; [x, y, r]' % (src, sh))
            # the same calls on an operand nobody else holds: what a call returns must not depend on who else holds its argument
            for sh in fresh:
                steps.append('try %s catch _ -> "ERR"' % sh)
            yield Case(steps, {"kind": "sweep", "fn": f, "val": kind_, "src": src, "shapes": shapes}, pre=["struct Foo (x, y)"], iso=True,
                       opts={"step_ms": 800, "fuel": 20000, "compact": True, "cap": 16})
        yield Case(['%s' % v for _, v in SWEEP_VALUES], {"kind": "sweep-ref"}, pre=["struct Foo (x, y)"], iso=True, opts={"compact": True, "cap": 16})
    for c in dictalg_cases(tier):
        yield c


# ---------------------------------------------------------------- (c) dict/set algebra under every holding configuration
# The value of `l OP r` (and what `a OP= r` leaves in a) is a function of the operand values: it may not depend on whether an
# operand is a temporary, is held by a variable, or is held by two. Operands are enumerated with common keys carrying
# different values on the two sides and with either side the larger one; the reference is a Python dict.
DA_LEFT = [{}, {1: 10}, {1: 10, 2: 20}, {1: 10, 2: 20, 3: 30}]
DA_RIGHT = [{}, {1: 11}, {2: 21, 4: 41}, {1: 11, 2: 21, 5: 51}, {1: 11, 2: 21, 3: 31, 4: 41}]
DA_OPS = ["||", "&&", "--", "||+"]
DA_LCONF = ["temp", "var", "aliased", "inlist"]
DA_RCONF = ["temp", "var"]
DA_FORMS = ["infix", "call", "opassign"]


def da_lit(d):
    return "{%s}" % ", ".join("%d: %d" % kv for kv in d.items()) if d else "{}"


def da_model(op, l, r):
    if op == "||":
        o = dict(l)
        o.update(r)
        return o
    if op == "&&":
        return {k: v for k, v in l.items() if k in r}
    if op == "--":
        return {k: v for k, v in l.items() if k not in r}
    if op == "||+":
        o = dict(l)
        for k, v in r.items():
            o[k] = o[k] + v if k in o else v
        return o
    raise KeyError(op)


def da_canon(d):
    return ["d", [[I(k), I(v)] for k, v in d.items()]]


def dictalg_cases(tier):
    for op in DA_OPS:
        for li, l in enumerate(DA_LEFT):
            for ri, r in enumerate(DA_RIGHT):
                steps = []
                confs = []
                for lc in DA_LCONF:
                    for rc in DA_RCONF:
                        for form in DA_FORMS:
                            if form == "opassign" and lc in ("temp", "inlist"):
                                continue
                            pre = "a := %s; " % da_lit(l) if lc != "temp" else ""
                            if lc == "aliased":
                                pre += "a2 := a; "
                            if lc == "inlist":
                                pre += "h := [a]; "
                            pre += "b := %s; " % da_lit(r) if rc != "temp" else ""
                            L_ = da_lit(l) if lc == "temp" else "a"
                            R_ = da_lit(r) if rc == "temp" else "b"
                            if form == "infix":
                                body = "res := %s %s %s; " % (L_, op, R_)
                            elif form == "call":
                                body = "res := (%s)(%s, %s); " % (op, L_, R_)
                            else:
                                body = "a %s= %s; res := a; " % (op, R_)
                            held = "[res, %s, %s, %s, %s]" % ("a" if lc != "temp" and form != "opassign" else "null", "a2" if lc == "aliased" else "null",
                                                          "h" if lc == "inlist" else "null", "b" if rc != "temp" else "null")
                            steps.append(pre + body + held)
                            confs.append([lc, rc, form])
                yield Case(steps, {"kind": "dictalg", "op": op, "l": li, "r": ri, "confs": confs}, iso=True, opts={"compact": True, "cap": 16})


def judge_dictalg(case, rs):
    m = case.meta
    l, r = DA_LEFT[m["l"]], DA_RIGHT[m["r"]]
    want = da_canon(da_model(m["op"], l, r))
    out = []
    for (lc, rc, form), src, res in zip(m["confs"], case.steps, rs):
        sig = "C01 dictalg op=%s form=%s left=%s right=%s" % (m["op"], form, lc, rc)
        if res.get("st") != "ok":
            out.append(Violation(sig + " result=" + str(res.get("st")), "%s: %s %s" % (src, res.get("st"), (res.get("e") or "")[:160]), "ok", res.get("st")))
            continue
        v = norm(res["v"])[1]
        exp = [want, da_canon(l) if (lc != "temp" and form != "opassign") else None, da_canon(l) if lc == "aliased" else None,
               L(da_canon(l)) if lc == "inlist" else None, da_canon(r) if rc != "temp" else None]
        names = ["the result", "a", "the alias a2", "the list holding a", "b"]
        for nm, g, w in zip(names, v, exp):
            if (g is None) != (w is None) or (w is not None and resort(g) != resort(w)):
                out.append(Violation(sig + " result=wrong-" + ("result" if nm == "the result" else "operand"),
                                     "%s: %s is %s, expected %s" % (src, nm, json.dumps(g)[:200], json.dumps(w)[:200]), w, g))
                break
    return out


_REF = {}


def deep_sorted(v):
    if isinstance(v, list):
        xs = [deep_sorted(e) for e in v]
        if v and v[0] in ("l", "d") and len(v) > 1 and isinstance(v[1], list):
            xs[1] = sorted(xs[1], key=lambda e: json.dumps(e, sort_keys=True))
        return xs
    return v


def has_opaque(v):
    """functions and other values whose canonical form carries an identity rather than a value"""
    if isinstance(v, list):
        if v and v[0] in ("fn", "F", "?", "o"):
            return True
        return any(has_opaque(e) for e in v)
    return False


def judge_sweep(case, rs):
    m = case.meta
    if m["kind"] == "sweep-ref":
        return []
    out = []
    ns = len(m["shapes"])
    for i, (sh, r) in enumerate(zip(m["shapes"], rs)):
        st = r.get("st")
        if st != "ok":
            continue     # crash / hang / escaped control flow: C14's
        v = norm(r["v"])
        # x and y must both still equal the original value: compare with each other and with a pristine evaluation
        if v[0] != "l" or len(v[1]) != 3:
            continue
        x, y, res = v[1]
        rf = rs[ns + i] if ns + i < len(rs) else {}
        # dicts and sets iterate in an order of their own (two separately built equal dicts differ in it, and a result may
        # legitimately follow it: group_all, insert, first), so results are compared as multisets at every level, and
        # multi-entry dict operands are left to family (c), which has an exact reference
        unordered = m["val"] in ("dict", "set") or "{" in sh
        if rf.get("st") == "ok" and not unordered and not has_opaque(res) and not has_opaque(norm(rf["v"])) and deep_sorted(res) != deep_sorted(norm(rf["v"])):
            out.append(Violation("C01 sweep fn=%s kind=%s result=depends-on-sharing" % (m["fn"], m["val"]),
                                 "x := %s; y := x; %s  gave %s, the same call on an unshared operand gave %s" % (m["src"], sh, json.dumps(res)[:200], json.dumps(norm(rf["v"]))[:200]),
                                 norm(rf["v"]), res))
            break
        if resort(x) != resort(y):
            out.append(Violation("C01 sweep fn=%s kind=%s result=argument-mutated" % (m["fn"], m["val"]),
                                 "x := %s; y := x; %s  left x = %s, y = %s" % (m["src"], sh, json.dumps(x)[:200], json.dumps(y)[:200]), y, x))
            break
        want = SWEEP_CANON.get(m["val"])
        if want is not None and resort(x) != resort(want):
            out.append(Violation("C01 sweep fn=%s kind=%s result=variable-changed" % (m["fn"], m["val"]),
                                 "x := %s; y := x; %s  left x = y = %s" % (m["src"], sh, json.dumps(x)[:200]), want, x))
            break
    return out


SWEEP_CANON = {
    "list": L(I(3), I(1), I(2)), "nested": L(L(I(1), I(2)), L(I(3))), "dict": ["d", [[I(1), L(I(2))], [I(3), I(4)]]],
    "defdict": ["d", [[I(1), L(I(1))]], L(I(0))], "string": ["s", "héllo"], "vector": ["v", [I(1), I(2), I(3)]], "bytes": ["b", [1, 255, 3]],
    "instance": FOO(L(I(1)), I(2)), "stream": ["S", "1 til 4 by 1", [I(1), I(2), I(3)], "end"], "set": ["d", [[I(1), None], [I(2), None]]],
}


def nontrivial(case, rs):
    return any(r.get("st") == "ok" for r in rs)


def bounds(tier):
    return {"search_depth": depth(tier), "scenarios": {k: len(SCENARIOS[k]["menu"]()) for k in SCENARIOS},
            "sweep_kinds": [k for k, _ in SWEEP_VALUES], "sweep_call_shapes": 2 + 2 * len(SWEEP_ARGS) + 4}
