"""Explicit-state breadth-first search over operation histories on the real interpreter.

A state is "the interpreter after replaying history h in a fresh environment" (live states cannot
be copied), rebuilt by replay for every transition. States are merged on a key computed by the
engine from the live environment (values + sharing graph + reference counts, see DESIGN.md 3.3).
Every transition is run on the implementation *and* on the module's reference model in
lock-step and compared, so traces_validated_against_impl == transitions.

A search module provides
    starts(tier)                         -> list of start descriptors (JSON-able)
    alphabet(tier, start)                -> list of statement descriptors (JSON-able), simplest first
    make_case(tier, start, history)      -> core.Case running start + history (+ observations)
    judge(case, results)                 -> violations of the *last* transition (and its observations)
    extends(case, results)               -> True when the last statement was valid (state is kept)
    state_key(case, results)             -> hashable key of the reached state
    depth(tier)
"""
import hashlib
import json
import multiprocessing as mp
import time
import traceback
from collections import Counter

from . import core
from . import engine as E


def _expand_worker(args):
    modname, tier, items, seed, merge = args
    try:
        mod = __import__("vlib.props." + modname, fromlist=["x"])
        eng = core._engine()
        st = {"cases": 0, "evals": 0, "nontrivial": 0, "viol": [], "samples": [], "status": Counter(),
              "outcomes": set(), "extra": Counter(), "dups": 0, "new": []}
        for (start, hist) in items:
            alpha = mod.alphabet_h(tier, start, hist) if hasattr(mod, "alphabet_h") else mod.alphabet(tier, start)
            for stmt in alpha:
                h2 = hist + [stmt]
                case = mod.make_case(tier, start, h2)
                rs = core.run_case(eng, case, timeout=getattr(mod, "TIMEOUT", 30.0))
                st["cases"] += 1
                st["evals"] += len(rs)
                st["extra"]["transitions"] += 1
                for r in rs[-3:]:
                    st["status"][r.get("st")] += 1
                oh = hashlib.blake2b(json.dumps([[r.get("st"), r.get("v"), r.get("d")] for r in rs[len(hist):]],
                                                sort_keys=True).encode(), digest_size=8).digest()
                if len(st["outcomes"]) < 200000:
                    st["outcomes"].add(oh)
                vs = mod.judge(case, rs)
                for v in vs:
                    if len(st["viol"]) < 200:
                        st["viol"].append({"sig": v.sig, "detail": v.detail, "expected": v.expected,
                                           "observed": v.observed, "case": case.to_json(), "results": rs})
                    st["extra"]["violations_total"] += 1
                    st["extra"]["sig:" + v.sig] += 1
                if hasattr(mod, "tally"):
                    mod.tally(case, rs, st["extra"])
                ext = mod.extends(case, rs)
                if ext:
                    st["nontrivial"] += 1
                    st["extra"]["valid_transitions"] += 1
                    k = mod.state_key(case, rs) if merge else json.dumps([start, h2])
                    st["new"].append((k, start, h2))
                else:
                    st["extra"]["rejected_transitions"] += 1
                if len(st["samples"]) < 2 and (int.from_bytes(oh[:4], "big") + seed) % 97 == 1:
                    st["samples"].append({"history": case.steps[:12],
                                          "last": {k2: rs[min(len(hist), len(rs) - 1)].get(k2) for k2 in ("st", "v", "e")}})
        st["outcomes"] = list(st["outcomes"])
        st["spawns"] = eng.spawns
        eng.spawns = 0
        return st
    except E.MachineryError as e:
        return {"machinery": str(e)}
    except Exception:
        return {"machinery": traceback.format_exc()}


def _bfs(modname, mod, tier, seed, depth, merge, pool):
    parts = []
    seen = {}
    frontier = []
    for s in mod.starts(tier):
        frontier.append((s, []))
    nstates = len(frontier)
    per_depth = []
    for d in range(1, depth + 1):
        if not frontier:
            break
        nchunks = max(1, min(len(frontier), core.NPROC * 4))
        chunks = [frontier[i::nchunks] for i in range(nchunks)]
        res = pool.map(_expand_worker, [(modname, tier, c, seed, merge) for c in chunks], chunksize=1)
        for p in res:
            if "machinery" in p:
                return [p], 0, []
        # deterministic order of discovery: by (chunk index, position) -> re-sort by history text
        news = []
        for p in res:
            news.extend(p.pop("new"))
            parts.append(p)
        news.sort(key=lambda t: json.dumps([t[1], t[2]], sort_keys=True))
        nxt = []
        for k, start, h in news:
            kk = (json.dumps(start, sort_keys=True), k if isinstance(k, str) else json.dumps(k, sort_keys=True))
            if kk in seen:
                continue
            seen[kk] = 1
            nxt.append((start, h))
        nstates += len(nxt)
        per_depth.append({"depth": d, "expanded_states": len(frontier), "new_states": len(nxt)})
        frontier = nxt
    return parts, nstates, per_depth


def collect(modname, mod, tier, seed):
    ctx = mp.get_context("fork")
    depth = mod.depth(tier)
    with ctx.Pool(core.NPROC) as pool:
        parts, nstates, per_depth = _bfs(modname, mod, tier, seed, depth, True, pool)
        if parts and "machinery" in parts[0]:
            return parts
        info = Counter()
        info["states"] = nstates
        info["max_depth_completed"] = depth
        cross = getattr(mod, "crosscheck_depth", lambda t: 0)(tier)
        if cross:
            # same search, merging disabled, one level shallower: verdicts must agree
            p2, n2, _ = _bfs(modname, mod, tier, seed, cross, False, pool)
            if p2 and "machinery" in p2[0]:
                return p2
            sig_m = set()
            for p in parts:
                sig_m.update(k for k in p["extra"] if k.startswith("sig:"))
            sig_u = set()
            tr2 = 0
            for p in p2:
                sig_u.update(k for k in p["extra"] if k.startswith("sig:"))
                tr2 += p["extra"].get("transitions", 0)
            info["unmerged_crosscheck_depth"] = cross
            info["unmerged_states"] = n2
            info["unmerged_transitions"] = tr2
            if not sig_u <= sig_m:
                return [{"machinery": "merged search missed violations seen without merging: %r" % sorted(sig_u - sig_m)}]
    parts.append({"cases": 0, "evals": 0, "nontrivial": 0, "viol": [], "samples": [{"per_depth": per_depth}], "status": Counter(),
                  "outcomes": [], "extra": info, "dups": 0, "spawns": 0})
    return parts
