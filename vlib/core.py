"""Explorer core: cases, sharded execution on 16 engine workers, verdicts, evidence, findings.

A *case* is the unit of exploration: a list of noulith sources run on the real interpreter plus
the meta data the property's judge needs to compute the reference outcome. Two shapes:

  * iso cases   - one program text, run in its own child scope of an environment prepared by
                  `pre` (shared by many cases; batched into one engine request);
  * history cases - several dependent steps run in one fresh environment, observed after each.

Every property module exposes
    PROP, LEVEL, TECHNIQUE
    cases(tier)            -> iterable of Case   (deterministic, complete enumeration of the bound)
    judge(case, results)   -> list of Violation  (reference model / oracle)
    nontrivial(case, results) -> bool            (optional)
and may expose extra(tier, summary) to add coverage keys.
"""
import hashlib
import json
import multiprocessing as mp
import os
import sys
import time
import traceback
from collections import Counter

from . import engine as E

VERIF = E.VERIF
NPROC = int(os.environ.get("VERIF_PROCS", "16"))


class Case:
    __slots__ = ("pre", "steps", "iso", "opts", "meta", "bind")

    def __init__(self, steps, meta=None, pre=(), iso=True, opts=None, bind=None):
        self.pre = tuple(pre)
        self.steps = list(steps) if not isinstance(steps, str) else [steps]
        self.iso = iso
        self.opts = opts or {}
        self.meta = meta
        self.bind = bind

    def to_json(self):
        return {"pre": list(self.pre), "steps": self.steps, "iso": self.iso, "opts": self.opts,
                "meta": self.meta, "bind": self.bind}

    @staticmethod
    def from_json(j):
        return Case(j["steps"], j.get("meta"), j.get("pre", ()), j.get("iso", True), j.get("opts"),
                    j.get("bind"))

    def key(self):
        return hashlib.blake2b(json.dumps([self.pre, self.steps, self.bind, self.opts], sort_keys=True,
                                          default=str).encode(), digest_size=8).digest()


class Violation:
    def __init__(self, sig, detail, expected=None, observed=None):
        self.sig = sig          # stable signature: operation + input class (matched against known findings)
        self.detail = detail    # human readable
        self.expected = expected
        self.observed = observed


def request_of(case, steps=None):
    req = {"steps": steps if steps is not None else case.steps, "iso": case.iso}
    if case.pre:
        req["pre"] = list(case.pre)
    if case.bind:
        req["bind"] = case.bind
    req.update(case.opts)
    return req


# ------------------------------------------------------------------ worker side
_ENG = None


def _engine():
    global _ENG
    if _ENG is None:
        _ENG = E.Engine()
    return _ENG


def run_case(eng, case, timeout=30.0):
    rs = eng.run(request_of(case), timeout=timeout)
    return confirm_hangs(eng, case, rs, timeout)


def confirm_hangs(eng, case, rs, timeout):
    """A `hang` is a wall-clock verdict (in-engine watchdog / reply deadline), so on a loaded machine it can be
    produced by scheduling alone. Before it is judged, the case is run again on its own with eight times the budget;
    the patient result replaces the first one. Cases that opt out (`hang_retry: False`, used where a hang is tolerated
    anyway) keep the first answer."""
    if not any(r.get("st") == "hang" for r in rs) or case.opts.get("hang_retry", True) is False:
        return rs
    opts = dict(case.opts)
    opts["step_ms"] = min(60000, max(8000, 8 * int(opts.get("step_ms", 3000))))
    patient = Case(case.steps, case.meta, pre=case.pre, iso=case.iso, opts=opts, bind=case.bind)
    return eng.run(request_of(patient), timeout=max(8 * timeout, 90.0))


def _run_batch(eng, batch, timeout):
    """batch: list of cases. iso cases with identical (pre, bind, opts) share engine requests (their
    steps are independent: each runs in its own child scope of the environment built by `pre`)."""
    out = [None] * len(batch)
    groups = {}
    for i, c in enumerate(batch):
        if c.iso:
            k = (c.pre, json.dumps(c.bind, sort_keys=True), json.dumps(c.opts, sort_keys=True))
            groups.setdefault(k, []).append(i)
        else:
            out[i] = run_case(eng, c, timeout)
    for k, idxs in groups.items():
        c0 = batch[idxs[0]]
        pos = 0
        while pos < len(idxs):
            part, nsteps = [], 0
            while pos < len(idxs) and (not part or nsteps + len(batch[idxs[pos]].steps) <= 256):
                part.append(idxs[pos])
                nsteps += len(batch[idxs[pos]].steps)
                pos += 1
            steps = [s for i in part for s in batch[i].steps]
            res = eng.run(request_of(c0, steps), timeout=timeout)
            if len(res) == 1 and res[0].get("st") == "pre_error":
                res = res * len(steps)
            if len(res) != len(steps):
                raise E.MachineryError("engine answered %d of %d steps" % (len(res), len(steps)))
            off = 0
            for i in part:
                n = len(batch[i].steps)
                out[i] = confirm_hangs(eng, batch[i], res[off:off + n], timeout)
                off += n
    return out


def _shard_worker(args):
    modname, tier, shard, nshards, seed = args
    try:
        mod = __import__("vlib.props." + modname, fromlist=["x"])
        eng = _engine()
        t0 = time.time()
        st = {"cases": 0, "evals": 0, "nontrivial": 0, "viol": [], "samples": [], "status": Counter(),
              "outcomes": set(), "extra": Counter(), "seen": set(), "dups": 0}
        batch = []
        timeout = getattr(mod, "TIMEOUT", 12.0)

        def flush():
            if not batch:
                return
            results = _run_batch(eng, batch, timeout)
            for c, rs in zip(batch, results):
                k = c.key()
                if k in st["seen"]:
                    st["dups"] += 1
                    continue
                st["seen"].add(k)
                st["cases"] += 1
                st["evals"] += len(rs)
                for r in rs:
                    st["status"][r.get("st")] += 1
                    if len(st["outcomes"]) < 200000:
                        st["outcomes"].add(hashlib.blake2b(json.dumps([r.get("st"), r.get("v"), r.get("o"), r.get("d")],
                                                                       sort_keys=True).encode(), digest_size=8).digest())
                vs = mod.judge(c, rs)
                nt = mod.nontrivial(c, rs) if hasattr(mod, "nontrivial") else all(r.get("st") == "ok" for r in rs)
                if nt:
                    st["nontrivial"] += 1
                if hasattr(mod, "tally"):
                    mod.tally(c, rs, st["extra"])
                for v in vs:
                    if len(st["viol"]) < 400:
                        st["viol"].append({"sig": v.sig, "detail": v.detail, "expected": v.expected,
                                           "observed": v.observed, "case": c.to_json(), "results": rs})
                    st["extra"]["violations_total"] += 1
                    st["extra"]["sig:" + v.sig] += 1
                if len(st["samples"]) < 3 and (st["cases"] + seed) % 97 == 1:
                    st["samples"].append({"steps": c.steps[:8], "pre": list(c.pre)[:4],
                                          "results": [{k2: r.get(k2) for k2 in ("st", "v", "o", "e") if k2 in r} for r in rs[:8]]})
            batch.clear()

        if getattr(mod, "SHARDED", False):
            gen = mod.cases(tier, shard, nshards)
        else:
            gen = (c for i, c in enumerate(mod.cases(tier)) if i % nshards == shard)
        for c in gen:
            batch.append(c)
            if len(batch) >= 512:
                flush()
        flush()
        st["wall"] = time.time() - t0
        st["outcomes"] = list(st["outcomes"])
        st["seen"] = len(st["seen"])
        st["spawns"] = eng.spawns
        return st
    except E.MachineryError as e:
        return {"machinery": str(e)}
    except Exception:
        return {"machinery": traceback.format_exc()}


# ------------------------------------------------------------------ known findings
def load_findings():
    p = os.path.join(VERIF, "known_findings.json")
    if not os.path.exists(p):
        return {"findings": [], "fixed": []}
    return json.load(open(p))


def known_sigs(prop):
    return {f["signature"]: f for f in load_findings().get("findings", []) if f["property"] == prop}


# ------------------------------------------------------------------ driver
def run_property(modname, tier, seed=0):
    mod = __import__("vlib.props." + modname, fromlist=["x"])
    prop = mod.PROP
    t0 = time.time()
    E.build()
    if getattr(mod, "SEARCH", False):
        from . import search
        parts = search.collect(modname, mod, tier, seed)
        if hasattr(mod, "cases") and not (parts and "machinery" in parts[0]):
            nshards = NPROC * 2
            args = [(modname, tier, s, nshards, seed) for s in range(nshards)]
            with mp.get_context("fork").Pool(NPROC) as pool:
                parts += pool.map(_shard_worker, args, chunksize=1)
    else:
        nshards = NPROC * getattr(mod, "SHARDS_PER_PROC", 2)
        order = list(range(nshards))
        if seed:
            r = seed % nshards
            order = order[r:] + order[:r]
        args = [(modname, tier, s, nshards, seed) for s in order]
        ctx = mp.get_context("fork")
        with ctx.Pool(NPROC) as pool:
            parts = pool.map(_shard_worker, args, chunksize=1)
    for p in parts:
        if "machinery" in p:
            print("MACHINERY ERROR in %s: %s" % (prop, p["machinery"]))
            sys.exit(2)
    total = {"cases": 0, "evals": 0, "nontrivial": 0, "dups": 0, "spawns": 0}
    status = Counter()
    extra = Counter()
    outcomes = set()
    viols = []
    samples = []
    for p in parts:
        for k in total:
            total[k] += p.get(k, 0)
        status.update(p["status"])
        extra.update(p["extra"])
        outcomes.update(bytes(x) for x in p["outcomes"])
        viols.extend(p["viol"])
        samples.extend(p["samples"])
    known = known_sigs(prop)
    # every violation is replayed twice in a fresh engine before it is believed
    eng = E.Engine()
    new, knownhits = [], Counter()
    flaky = []
    by_sig = {}
    for v in viols:
        by_sig.setdefault(v["sig"], []).append(v)
    replay_dir = os.path.join(VERIF, "replays", prop)
    os.makedirs(replay_dir, exist_ok=True)
    for sig in sorted(by_sig):
        vs = by_sig[sig]
        v = vs[0]
        case = Case.from_json(v["case"])
        ok = 0
        for _ in range(2):
            eng.start()
            rs = run_case(eng, case)
            again = mod.judge(case, rs)
            if any(a.sig == sig for a in again):
                ok += 1
        if ok != 2:
            # Not reproducible on both replays. The only nondeterminism the subject has that the
            # harness cannot own is the per-map hash seed; a defect that makes behaviour depend on it
            # (e.g. hash/equality disagreement) shows up intermittently. Such a signature is kept
            # aside: it is never a verdict on its own unless it recurs in a longer series.
            flaky.append((sig, v, case, ok))
            continue
        h = hashlib.blake2b(sig.encode(), digest_size=6).hexdigest()
        path = os.path.join(replay_dir, h + ".json")
        rec = {"property": prop, "module": modname, "signature": sig, "detail": v["detail"],
               "expected": v["expected"], "observed": v["observed"], "case": v["case"],
               "results": v["results"],
               "noul": "\n".join(list(case.pre) + case.steps), "occurrences_in_run": int(extra["sig:" + sig])}
        json.dump(rec, open(path, "w"), indent=1, default=str)
        if sig in known:
            knownhits[sig] += 1
            print("KNOWN-FINDING: property=%s %s" % (prop, sig))
        else:
            new.append((sig, path, v["detail"]))
    solid = len(new) + len(knownhits)
    for sig, v, case, ok in flaky:
        if solid:
            print("INTERMITTENT (not counted): property=%s %s reproduced %d/2" % (prop, sig, ok))
            continue
        seen = ok
        for _ in range(8):
            eng.start()
            rs = run_case(eng, case)
            if any(a.sig == sig for a in mod.judge(case, rs)):
                seen += 1
        if seen >= 3:
            h = hashlib.blake2b(sig.encode(), digest_size=6).hexdigest()
            path = os.path.join(replay_dir, h + ".json")
            json.dump({"property": prop, "module": modname, "signature": sig, "detail": v["detail"], "expected": v["expected"],
                       "observed": v["observed"], "case": v["case"], "results": v["results"], "intermittent": "%d/10 replays" % seen,
                       "noul": "\n".join(list(case.pre) + case.steps)}, open(path, "w"), indent=1, default=str)
            if sig in known:
                knownhits[sig] += 1
                print("KNOWN-FINDING: property=%s %s" % (prop, sig))
            else:
                new.append((sig + " [intermittent %d/10: outcome depends on per-map hash seeds]" % seen, path, v["detail"]))
        else:
            sts = sorted({str(r.get("st")) for r in v["results"]})
            if set(sts) & {"hang", "abort", "fuel", "missing", "pre_error"}:
                # the first observation was a resource verdict (watchdog, engine death, allocation failure) and ten isolated
                # replays all completed normally: a transient of the loaded machine, not a behaviour of the subject
                print("TRANSIENT (not counted): property=%s %s: first observation had statuses %s, %d/10 isolated replays reproduce it" % (prop, sig, sts, seen))
                extra["transient_resource_events"] += 1
                continue
            print("MACHINERY ERROR in %s: violation %r did not reproduce (%d/10); statuses of the first observation: %s" % (prop, sig, seen, sts))
            sys.exit(2)
    eng.stop()
    for sig, path, detail in new:
        print("  violation detail: %s :: %s" % (sig, detail[:300]))
        print("VIOLATION property=%s replay=%s" % (prop, path))
    wall = time.time() - t0
    cov = {
        "evaluations": total["evals"],
        "cases": total["cases"],
        "distinct_nontrivial": total["nontrivial"],
        "rule": getattr(mod, "RULE", ""),
        "samples": _pick_samples(samples),
        "exhaustive": True,
        "bounds": mod.bounds(tier) if hasattr(mod, "bounds") else {},
        "status_histogram": dict(status),
        "distinct_outcomes": len(outcomes),
        "duplicate_cases_skipped": total["dups"],
        "engine_spawns": total["spawns"],
        "known_findings_hit": sorted(knownhits),
        "new_violation_signatures": [s for s, _, _ in new],
        "tallies": {k: v for k, v in extra.items() if not k.startswith("sig:")},
    }
    if getattr(mod, "LEVEL", "exploration") == "model_checking":
        cov["states"] = int(extra.get("states", total["cases"]))
        cov["transitions"] = int(extra.get("transitions", total["cases"]))
        cov["traces_validated_against_impl"] = int(extra.get("transitions", total["cases"]))
        cov["explanation"] = getattr(mod, "SEARCH_NOTE", "")
    if getattr(mod, "LEVEL", "") == "translation_validation":
        cov["programs"] = total["cases"]
        cov["disagreements_checked"] = int(extra.get("violations_total", 0))
    ev = {
        "property_id": prop, "tier": tier, "seed": seed, "level": getattr(mod, "LEVEL", "exploration"),
        "coverage": cov, "assumptions": getattr(mod, "ASSUMPTIONS", []), "wall_s": round(wall, 2),
        "violations": len(new), "technique": getattr(mod, "TECHNIQUE", ""),
    }
    os.makedirs(os.path.join(VERIF, "evidence"), exist_ok=True)
    json.dump(ev, open(os.path.join(VERIF, "evidence", prop + ".json"), "w"), indent=1)
    print("[%s %s] cases=%d evaluations=%d nontrivial=%d distinct_outcomes=%d status=%s known=%d new=%d wall=%.1fs"
          % (prop, tier, total["cases"], total["evals"], total["nontrivial"], len(outcomes), dict(status),
             len(knownhits), len(new), wall))
    return 1 if new else 0


def _pick_samples(samples):
    """at most 6 distinct samples: summaries first, then the longest histories / step lists"""
    if not samples:
        return [{"note": "no sample selected"}]
    seen, uniq = set(), []
    for x in samples:
        k = json.dumps(x, sort_keys=True, default=str)
        if k not in seen:
            seen.add(k)
            uniq.append(x)
    size = lambda x: len(x.get("history", x.get("steps", [])))
    summ = [x for x in uniq if "history" not in x and "steps" not in x]
    rest = sorted([x for x in uniq if x not in summ], key=lambda x: -size(x))
    return (summ[:2] + rest)[:6]


def replay(path):
    rec = json.load(open(path))
    mod = __import__("vlib.props." + rec["module"], fromlist=["x"])
    E.build()
    eng = E.Engine()
    case = Case.from_json(rec["case"])
    rs = run_case(eng, case)
    eng.stop()
    vs = mod.judge(case, rs)
    print("replay of %s (%s)" % (path, rec["signature"]))
    print("program:\n" + rec["noul"])
    for r in rs:
        print("  ->", json.dumps({k: r.get(k) for k in ("st", "v", "o", "e") if k in r})[:400])
    hit = [v for v in vs if v.sig == rec["signature"]]
    if hit:
        print("still violates: %s" % hit[0].detail[:400])
        print("VIOLATION property=%s replay=%s" % (rec["property"], path))
        return 1
    print("does not violate (any more)")
    return 0
