"""Shared value pools, ordered simplest-first. Each pool entry is (python_value, noulith_source, tag)."""
from fractions import Fraction

from .canon import lit_int

SMALL = [0, 1, -1, 2, -2, 3, -3, 7, -7, 10, -10]
KS_QUICK = [31, 32, 62, 63, 64, 100]
KS_FULL = [7, 8, 15, 16, 31, 32, 53, 62, 63, 64, 65, 100, 127, 128, 200, 1000, 4000]


def int_values(tier):
    ks = KS_QUICK if tier == "quick" else KS_FULL
    ds = (-1, 0, 1) if tier == "quick" else (-2, -1, 0, 1, 2)
    vals = list(SMALL)
    for k in ks:
        for d in ds:
            for s in (1, -1):
                v = s * (2 ** k + d)
                if v not in vals:
                    vals.append(v)
    return vals


def pow_src(v):
    """2^k+d spelled through `^` (for values that are near a power of two)."""
    a = abs(v)
    k = a.bit_length() - 1
    best = None
    for kk in (k, k + 1):
        d = a - 2 ** kk
        if abs(d) <= 2 and kk >= 7:
            best = (kk, d)
            break
    if best is None:
        return None
    kk, d = best
    s = "2^%d" % kk
    if d > 0:
        s += "+%d" % d
    elif d < 0:
        s += "-%d" % (-d)
    return "(%s)" % s if v >= 0 else "(-(%s))" % s


def int_operands(tier):
    """(value, source, route) - every small value in both representations and by several routes."""
    out = []
    for v in int_values(tier):
        out.append((v, lit_int(v), "lit"))
    for v in int_values(tier):
        if abs(v) < 2 ** 62 and (tier != "quick" or abs(v) <= 10 or abs(v) in (2 ** 31, 2 ** 32 + 1)):
            out.append((v, "((2^70+%s)-2^70)" % lit_int(v), "bigdiff"))
    for v in int_values(tier):
        p = pow_src(v)
        if p and (tier != "quick" or abs(v).bit_length() in (63, 64, 65)):
            out.append((v, p, "pow"))
    for v in int_values(tier):
        if abs(v).bit_length() in (63, 64) or (tier != "quick" and abs(v) in (0, 1, 7, 2 ** 100)):
            out.append((v, 'int("%d")' % v, "parse"))
    for v in int_values(tier):
        if 0 <= v < 2 ** 62 and (abs(v) <= 3 or (tier != "quick" and v in (7, 10, 2 ** 31, 2 ** 53))):
            out.append((v, "((2^70+%d) & (2^70-1))" % v, "bitop"))
    return out


def iclass(v):
    if v == 0:
        return "zero"
    s = "pos" if v > 0 else "neg"
    n = abs(v).bit_length()
    if -2 ** 63 <= v < 2 ** 63:
        m = "word" if n > 31 else "small"
        if v == -2 ** 63:
            m = "i64min"
    elif n <= 65:
        m = "just-over-word"
    else:
        m = "huge"
    return s + "-" + m


FRACS = [Fraction(1, 2), Fraction(-1, 2), Fraction(1, 3), Fraction(-1, 3), Fraction(3, 2), Fraction(-3, 2),
         Fraction(7, 3), Fraction(-7, 3), Fraction(5, 4), Fraction(1, 7), Fraction(22, 7), Fraction(-22, 7),
         Fraction(2 ** 64 + 1, 2 ** 64), Fraction(1, 2 ** 70), Fraction(-(10 ** 30 + 1), 10 ** 15 + 3),
         Fraction(2 ** 100 + 1, 3)]
