"""Process wrapper around the real-code engine `nlx` (see /verif/engine).

One Engine = one child process. Requests are JSON lines; the engine answers each request with one
flushed line, so when the child dies or misses its deadline the first unanswered request is the
culprit. `run()` turns a death inside a multi-step request into per-step attribution by
re-running the steps one at a time in fresh children.
"""
import json
import os
import resource
import select
import subprocess
import sys
import time

VERIF = os.path.dirname(os.path.dirname(os.path.abspath(__file__)))
ENGINE_DIR = os.path.join(VERIF, "engine")
TARGET_DIR = os.path.join(VERIF, ".target")
NLX = os.path.join(TARGET_DIR, "debug", "nlx")


class MachineryError(Exception):
    pass


def build(verbose=True):
    """(Re)build the engine against /repo's current working tree, offline, hooks on."""
    env = dict(os.environ)
    env["CARGO_NET_OFFLINE"] = "true"
    env["CARGO_TARGET_DIR"] = TARGET_DIR
    env.pop("RUSTFLAGS", None)  # .cargo/config.toml carries --cfg betaveros_noulith_verif
    t0 = time.time()
    p = subprocess.run(
        ["cargo", "build", "--offline", "--quiet"],
        cwd=ENGINE_DIR, env=env, stdout=subprocess.PIPE, stderr=subprocess.STDOUT, text=True)
    if p.returncode != 0:
        sys.stdout.write(p.stdout[-6000:])
        raise MachineryError("engine build failed (exit %d)" % p.returncode)
    if verbose:
        print("[build] engine up to date in %.1fs" % (time.time() - t0), flush=True)
    return NLX


def _limits(mem_bytes):
    def f():
        resource.setrlimit(resource.RLIMIT_AS, (mem_bytes, mem_bytes))
        resource.setrlimit(resource.RLIMIT_CORE, (0, 0))
    return f


class EngineDied(Exception):
    def __init__(self, kind, detail=""):
        Exception.__init__(self, kind + " " + detail)
        self.kind = kind  # 'abort' | 'hang'
        self.detail = detail


class Engine:
    def __init__(self, mem_gb=6, stack_mb=1024):
        self.mem = int(mem_gb * (1 << 30))
        self.stack_mb = stack_mb
        self.p = None
        self.buf = b""
        self.spawns = 0

    def start(self):
        self.stop()
        env = dict(os.environ)
        env["NLX_STACK_MB"] = str(self.stack_mb)
        self.p = subprocess.Popen(
            [NLX], stdin=subprocess.PIPE, stdout=subprocess.PIPE, stderr=subprocess.PIPE,
            preexec_fn=_limits(self.mem), env=env, bufsize=0)
        self.buf = b""
        self.spawns += 1

    def stop(self):
        if self.p is not None:
            try:
                self.p.kill()
            except Exception:
                pass
            try:
                self.p.wait(timeout=5)
            except Exception:
                pass
            for f in (self.p.stdin, self.p.stdout, self.p.stderr):
                try:
                    f.close()
                except Exception:
                    pass
            self.p = None

    def _readline(self, deadline):
        fd = self.p.stdout.fileno()
        while True:
            i = self.buf.find(b"\n")
            if i >= 0:
                line = self.buf[:i]
                self.buf = self.buf[i + 1:]
                return line
            left = deadline - time.time()
            if left <= 0:
                raise EngineDied("hang")
            r, _, _ = select.select([fd], [], [], min(left, 1.0))
            if not r:
                if self.p.poll() is not None:
                    raise EngineDied("abort", self._stderr_tail())
                continue
            chunk = os.read(fd, 1 << 16)
            if not chunk:
                raise EngineDied("abort", self._stderr_tail())
            self.buf += chunk

    def _stderr_tail(self):
        try:
            self.p.wait(timeout=2)
        except Exception:
            pass
        try:
            fd = self.p.stderr.fileno()
            r, _, _ = select.select([fd], [], [], 0.2)
            if r:
                return os.read(fd, 4096).decode("utf-8", "replace")[-400:].strip()
        except Exception:
            pass
        return "rc=%s" % (self.p.returncode,)

    def raw(self, req, timeout=20.0):
        """Send one request, return the decoded answer. Raises EngineDied."""
        if self.p is None or self.p.poll() is not None:
            self.start()
        data = (json.dumps(req) + "\n").encode()
        try:
            self.p.stdin.write(data)
            self.p.stdin.flush()
        except (BrokenPipeError, OSError):
            raise EngineDied("abort", self._stderr_tail())
        try:
            line = self._readline(time.time() + timeout)
        except EngineDied:
            self.stop()
            raise
        return json.loads(line)

    def _stream(self, req, timeout):
        """Send a steps request; collect the per-step lines. Returns (results, death) where death is
        None, ("pre_error", msg), ("hang", detail) or ("abort", detail)."""
        if self.p is None or self.p.poll() is not None:
            self.start()
        data = (json.dumps(req) + "\n").encode()
        try:
            self.p.stdin.write(data)
            self.p.stdin.flush()
        except (BrokenPipeError, OSError):
            d = self._stderr_tail()
            self.stop()
            return [], ("abort", d)
        res = []
        step_s = req.get("step_ms", 4000) / 1000.0
        end = time.time() + timeout
        while True:
            try:
                line = self._readline(min(end, time.time() + step_s + 3.0))
            except EngineDied as e:
                d = e.detail
                self.stop()
                return res, (e.kind, d)
            j = json.loads(line)
            if "st" in j:
                res.append(j)
            elif "done" in j:
                return res, None
            elif "watchdog" in j:
                self.stop()
                return res, ("hang", "step exceeded %d ms" % req.get("step_ms", 4000))
            elif "pre_error" in j:
                return res, ("pre_error", j["pre_error"])
            else:
                raise MachineryError("unexpected engine line: %r" % line[:200])

    def run(self, req, timeout=30.0):
        """Run a `steps` request and return the list of step results. The engine answers one flushed
        line per step, so a death is attributed to the first step without a line: it gets
        {"st": "abort"|"hang"}; independent (iso) steps after it are still run, in a fresh engine."""
        steps = list(req.get("steps", []))
        out = []
        pending = steps
        while True:
            res, death = self._stream(dict(req, steps=pending), timeout)
            out.extend(res)
            if death is None:
                return out
            if death[0] == "pre_error":
                return out + [{"st": "pre_error", "e": death[1]}]
            out.append({"st": death[0], "e": death[1]})
            if not req.get("iso"):
                return out
            pending = pending[len(res) + 1:]
            if not pending:
                return out
