"""Process wrapper around the real-code engine `nlx` (see /verif/engine).

One Engine = one child process. Requests are JSON lines; the engine answers each request with one
flushed line, so when the child dies or misses its deadline the first unanswered request is the
culprit. `run()` turns a death inside a multi-step request into per-step attribution by
re-running the steps one at a time in fresh children.
"""
import json
import os
import resource
import select
import subprocess
import sys
import time

VERIF = os.path.dirname(os.path.dirname(os.path.abspath(__file__)))
ENGINE_DIR = os.path.join(VERIF, "engine")
TARGET_DIR = os.path.join(VERIF, ".target")
NLX = os.path.join(TARGET_DIR, "debug", "nlx")


class MachineryError(Exception):
    pass


def build(verbose=True):
    """(Re)build the engine against /repo's current working tree, offline, hooks on."""
    env = dict(os.environ)
    env["CARGO_NET_OFFLINE"] = "true"
    env["CARGO_TARGET_DIR"] = TARGET_DIR
    env.pop("RUSTFLAGS", None)  # .cargo/config.toml carries --cfg betaveros_noulith_verif
    t0 = time.time()
    p = subprocess.run(
        ["cargo", "build", "--offline", "--quiet"],
        cwd=ENGINE_DIR, env=env, stdout=subprocess.PIPE, stderr=subprocess.STDOUT, text=True)
    if p.returncode != 0:
        sys.stdout.write(p.stdout[-6000:])
        raise MachineryError("engine build failed (exit %d)" % p.returncode)
    if verbose:
        print("[build] engine up to date in %.1fs" % (time.time() - t0), flush=True)
    return NLX


def _limits(mem_bytes):
    def f():
        resource.setrlimit(resource.RLIMIT_AS, (mem_bytes, mem_bytes))
        resource.setrlimit(resource.RLIMIT_CORE, (0, 0))
    return f


class EngineDied(Exception):
    def __init__(self, kind, detail=""):
        Exception.__init__(self, kind + " " + detail)
        self.kind = kind  # 'abort' | 'hang'
        self.detail = detail


class Engine:
    def __init__(self, mem_gb=6, stack_mb=1024):
        self.mem = int(mem_gb * (1 << 30))
        self.stack_mb = stack_mb
        self.p = None
        self.buf = b""
        self.spawns = 0

    def start(self):
        self.stop()
        env = dict(os.environ)
        env["NLX_STACK_MB"] = str(self.stack_mb)
        self.p = subprocess.Popen(
            [NLX], stdin=subprocess.PIPE, stdout=subprocess.PIPE, stderr=subprocess.PIPE,
            preexec_fn=_limits(self.mem), env=env, bufsize=0)
        self.buf = b""
        self.spawns += 1

    def stop(self):
        if self.p is not None:
            try:
                self.p.kill()
            except Exception:
                pass
            try:
                self.p.wait(timeout=5)
            except Exception:
                pass
            for f in (self.p.stdin, self.p.stdout, self.p.stderr):
                try:
                    f.close()
                except Exception:
                    pass
            self.p = None

    def _readline(self, deadline):
        fd = self.p.stdout.fileno()
        while True:
            i = self.buf.find(b"\n")
            if i >= 0:
                line = self.buf[:i]
                self.buf = self.buf[i + 1:]
                return line
            left = deadline - time.time()
            if left <= 0:
                raise EngineDied("hang")
            r, _, _ = select.select([fd], [], [], min(left, 1.0))
            if not r:
                if self.p.poll() is not None:
                    raise EngineDied("abort", self._stderr_tail())
                continue
            chunk = os.read(fd, 1 << 16)
            if not chunk:
                raise EngineDied("abort", self._stderr_tail())
            self.buf += chunk

    def _stderr_tail(self):
        try:
            self.p.wait(timeout=2)
        except Exception:
            pass
        try:
            fd = self.p.stderr.fileno()
            r, _, _ = select.select([fd], [], [], 0.2)
            if r:
                return os.read(fd, 4096).decode("utf-8", "replace")[-400:].strip()
        except Exception:
            pass
        return "rc=%s" % (self.p.returncode,)

    def raw(self, req, timeout=20.0):
        """Send one request, return the decoded answer. Raises EngineDied."""
        if self.p is None or self.p.poll() is not None:
            self.start()
        data = (json.dumps(req) + "\n").encode()
        try:
            self.p.stdin.write(data)
            self.p.stdin.flush()
        except (BrokenPipeError, OSError):
            raise EngineDied("abort", self._stderr_tail())
        try:
            line = self._readline(time.time() + timeout)
        except EngineDied:
            self.stop()
            raise
        return json.loads(line)

    def run(self, req, timeout=20.0, step_timeout=5.0):
        """Run a `steps` request. Returns the list of step results (same length as steps unless
        stop_on_error / pre_error). A child death is attributed: the culprit step gets
        {"st": "abort"|"hang"} after being reproduced twice; for iso requests the other steps are
        still answered."""
        try:
            resp = self.raw(req, timeout)
            if "pre_error" in resp:
                return [{"st": "pre_error", "e": resp["pre_error"]}]
            return resp["r"]
        except EngineDied:
            pass
        steps = req.get("steps", [])
        out = []
        if req.get("iso"):
            # independent steps: run one by one
            for s in steps:
                out.append(self._single(dict(req, steps=[s]), step_timeout))
            return out
        # dependent steps: find the shortest dying prefix
        prefix = []
        for k in range(1, len(steps) + 1):
            r = self._single(dict(req, steps=steps[:k]), step_timeout * 2, last_only=False)
            if isinstance(r, dict):  # died (or pre_error) at step k
                return prefix + [r]
            prefix = r
        return prefix

    def _single(self, req, timeout, last_only=True):
        kinds = []
        for _ in range(3):
            if len(kinds) == 2:
                break
            try:
                if kinds:
                    self.start()
                resp = self.raw(req, timeout)
                if "pre_error" in resp:
                    return {"st": "pre_error", "e": resp["pre_error"]}
                return resp["r"][0] if last_only else resp["r"]
            except EngineDied as e:
                kinds.append((e.kind, e.detail))
        if kinds[0][0] != kinds[1][0]:
            raise MachineryError("irreproducible engine death: %r on %r" % (kinds, req.get("steps")))
        return {"st": kinds[0][0], "e": kinds[0][1]}
