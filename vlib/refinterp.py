"""Reference interpreter of the documented control-flow / scoping / closure rules (C05, reused by C17).

Programs are Python tuples (an AST the generators build); `render` turns them into noulith source,
`run` interprets them under the documented rules and returns (outcome, value, output) where
outcome is "value" | "raised" | "skip" (budget exhausted, or the result depends on something the
reference deliberately does not model: builtin error message texts, display forms of functions,
break/continue crossing a call boundary).

Scoping rules encoded (README + DESIGN.md Appendix A.1): one scope at program top; one per call
(parent = defining scope); one per element of each `for` iteration clause; none for `for`
guards; one per `while` iteration shared by condition and body; one per `catch` clause; one per
`switch` arm (holding the names its pattern binds, discarded when the arm does not match); none for
`if`, `try` body, and/or/coalesce, sequences. `:=` declares in the current scope and refuses
redeclaration there; `=` assigns to the nearest enclosing declaration and refuses undeclared names.
"""


class Throw(Exception):
    def __init__(self, v):
        self.v = v


class Break(Exception):
    def __init__(self, n, v, has):
        self.n, self.v, self.has = n, v, has


class Continue(Exception):
    def __init__(self, n):
        self.n = n


class Return(Exception):
    def __init__(self, v):
        self.v = v


class Skip(Exception):
    pass


class ErrVal:
    """the (string) value of an error raised by a builtin: its text is not modelled"""
    pass


ERR = ErrVal()


class Env:
    __slots__ = ("vars", "parent")

    def __init__(self, parent=None):
        self.vars = {}
        self.parent = parent

    def declare(self, x, v):
        if x in self.vars:
            raise Throw(ERR)
        self.vars[x] = v

    def assign(self, x, v):
        e = self
        while e is not None:
            if x in e.vars:
                e.vars[x] = v
                return
            e = e.parent
        raise Throw(ERR)

    def lookup(self, x):
        e = self
        while e is not None:
            if x in e.vars:
                return e.vars[x]
            e = e.parent
        raise Throw(ERR)

    def has(self, x):
        e = self
        while e is not None:
            if x in e.vars:
                return True
            e = e.parent
        return False


class Closure:
    __slots__ = ("params", "body", "env")

    def __init__(self, params, body, env):
        self.params, self.body, self.env = params, body, env


class Builtin:
    def __init__(self, name):
        self.name = name


BUILTINS = ["sum", "count", "max", "min", "first", "last", "any", "all", "len", "print"]


def truthy(v):
    if v is None or v == 0 or v == [] or v == "" or v == {}:
        return False
    return True


def display(v, top=True):
    if v is None:
        return "null"
    if isinstance(v, bool):
        return str(int(v))
    if isinstance(v, int):
        return str(v)
    if isinstance(v, str):
        return v if top else '"%s"' % v
    if isinstance(v, list):
        return "[%s]" % ", ".join(display(x, False) for x in v)
    if isinstance(v, dict):
        raise Skip()
    raise Skip()       # functions / error values: display form not modelled


def equal(a, b):
    if isinstance(a, (Closure, Builtin, ErrVal)) or isinstance(b, (Closure, Builtin, ErrVal)):
        raise Skip()
    if type(a) != type(b):
        if isinstance(a, int) and isinstance(b, int):
            return a == b
        return False
    return a == b


class Interp:
    def __init__(self, budget=4000):
        self.budget = budget
        self.out = []
        self.depth = 0

    def tick(self):
        self.budget -= 1
        if self.budget <= 0:
            raise Skip()

    # ------------------------------------------------------------ expressions
    def ev(self, e, env):
        self.tick()
        t = e[0]
        if t == "int":
            return e[1]
        if t == "null":
            return None
        if t == "str":
            return e[1]
        if t == "var":
            if e[1] in BUILTINS and not env.has(e[1]):
                return Builtin(e[1])
            return env.lookup(e[1])
        if t == "list":
            return [self.ev(x, env) for x in e[1]]
        if t == "bin":
            a = self.ev(e[2], env)
            b = self.ev(e[3], env)
            return self.binop(e[1], a, b)
        if t == "decl":
            v = self.ev(e[2], env)
            env.declare(e[1], v)
            return None
        if t == "set":
            v = self.ev(e[2], env)
            env.assign(e[1], v)
            return None
        if t == "opset":
            cur = env.lookup(e[1])
            v = self.ev(e[3], env)
            # the variable is emptied while the operator runs (so that it can be consumed in place);
            # if the operator raises it stays null
            env.assign(e[1], None)
            env.assign(e[1], self.binop(e[2], cur, v))
            return None
        if t == "seq":
            r = None
            for x in e[1]:
                r = self.ev(x, env)
            return r
        if t == "if":
            if truthy(self.ev(e[1], env)):
                return self.ev(e[2], env)
            if e[3] is not None:
                return self.ev(e[3], env)
            return None
        if t == "while":
            while True:
                self.tick()
                ee = Env(env)
                if not truthy(self.ev(e[1], ee)):
                    return None
                try:
                    self.ev(e[2], ee)
                except Break as b:
                    if b.n == 0:
                        return b.v if b.has else None
                    raise Break(b.n - 1, b.v, b.has)
                except Continue as c:
                    if c.n == 0:
                        continue
                    raise Continue(c.n - 1)
        if t == "for":
            return self.ev_for(e, env)
        if t == "break":
            if e[2] is None:
                raise Break(e[1], None, False)
            raise Break(e[1], self.ev(e[2], env), True)
        if t == "continue":
            raise Continue(e[1])
        if t == "return":
            raise Return(self.ev(e[1], env) if e[1] is not None else None)
        if t == "throw":
            raise Throw(self.ev(e[1], env))
        if t == "try":
            try:
                return self.ev(e[1], env)
            except Throw as th:
                ee = Env(env)
                if isinstance(e[2], (tuple, list)):
                    # refutable catch pattern: a thrown value it does not match travels on unchanged (same value, nothing bound)
                    if not self.match(e[2], th.v, ee):
                        raise th
                elif e[2] != "_":
                    ee.declare(e[2], th.v)
                return self.ev(e[3], ee)
        if t == "switch":
            # first arm whose pattern matches runs, in a fresh scope holding the pattern's names; no arm -> error
            v = self.ev(e[1], env)
            for pat, body in e[2]:
                ee = Env(env)
                if not self.match(pat, v, ee):
                    continue
                return self.ev(body, ee)
            raise Throw(ERR)
        if t == "and":
            a = self.ev(e[1], env)
            return self.ev(e[2], env) if truthy(a) else a
        if t == "or":
            a = self.ev(e[1], env)
            return a if truthy(a) else self.ev(e[2], env)
        if t == "coalesce":
            a = self.ev(e[1], env)
            return self.ev(e[2], env) if a is None else a
        if t == "lambda":
            return Closure(e[1], e[2], env)
        if t == "call":
            f = self.ev(e[1], env)
            args = [self.ev(a, env) for a in e[2]]
            return self.call(f, args, env)
        if t == "print":
            v = self.ev(e[1], env)
            self.out.append(display(v) + "\n")
            return None
        if t == "eval":
            return self.ev(e[1], env)
        raise KeyError(t)

    def binop(self, op, a, b):
        if isinstance(a, ErrVal) or (isinstance(b, ErrVal) and op != "append"):
            if op in ("==", "<"):
                raise Skip()      # an error value is a string: comparisons depend on its text
            raise Throw(ERR)
        if op == "==":
            return int(equal(a, b))
        if op == "append":
            if isinstance(a, list):
                return a + [b]
            raise Throw(ERR)
        ints = isinstance(a, int) and isinstance(b, int)
        if op == "+":
            if ints:
                return a + b
            raise Throw(ERR)
        if op == "-":
            if ints:
                return a - b
            raise Throw(ERR)
        if op == "*":
            if ints:
                return a * b
            raise Throw(ERR)
        if op == "<":
            if ints:
                return int(a < b)
            if isinstance(a, str) and isinstance(b, str):
                return int(a < b)
            if isinstance(a, list) and isinstance(b, list):
                raise Skip()
            raise Throw(ERR)
        raise KeyError(op)

    def call(self, f, args, env):
        self.tick()
        if isinstance(f, Closure):
            return self.call_closure(f, args)
        if isinstance(f, Builtin):
            if any(isinstance(a, (Closure, Builtin)) for a in args) or len(args) != 1:
                raise Skip()
            a = args[0]
            if f.name == "print":
                self.out.append(display(a) + "\n")
                return None
            if f.name == "len":
                if isinstance(a, ErrVal):
                    raise Skip()
                if isinstance(a, (list, str)):
                    return len(a)
                raise Throw(ERR)
            raise Skip()
        # calling a non-function: with a function argument this builds a section (not modelled here)
        if any(isinstance(a, (Closure, Builtin)) for a in args):
            raise Skip()
        raise Throw(ERR)

    def call_closure(self, f, args):
        self.depth += 1
        if self.depth > 40:
            raise Skip()
        try:
            ee = Env(f.env)
            params = f.params
            splat = [i for i, p in enumerate(params) if p[0] == "ps"]
            n = len(args)
            vals = list(args)
            # the k non-splat parameters take the n supplied values in order; parameters past the supplied ones take their
            # defaults (evaluated in the call scope before any parameter is bound; an error if one has none); a splat takes
            # what is left over in the middle; without a splat n may not exceed k
            tg = [p for p in params if p[0] != "ps"]
            k = len(tg)
            if len(splat) > 1:
                raise Throw(ERR)
            if n < k:
                if any(p[0] == "p" for p in tg[n:]):
                    if splat and any(p[0] == "pd" for p in tg[n:]):
                        raise Skip()     # whether the defaults run before the arity error is reported is not documented
                    raise Throw(ERR)
                bound = vals + [self.ev(p[2], ee) for p in tg[n:]]
                for p, v in zip(tg, bound):
                    ee.declare(p[1], v)
                if splat:
                    ee.declare(params[splat[0]][1], [])
            elif not splat:
                if n != k:
                    raise Throw(ERR)
                for p, v in zip(params, vals):
                    ee.declare(p[1], v)
            else:
                s = splat[0]
                after = len(params) - s - 1
                for p, v in zip(params[:s], vals[:s]):
                    ee.declare(p[1], v)
                ee.declare(params[s][1], vals[s:n - after])
                for p, v in zip(params[s + 1:], vals[n - after:]):
                    ee.declare(p[1], v)
            try:
                return self.ev(f.body, ee)
            except Return as r:
                return r.v
            except (Break, Continue):
                raise Skip()      # crossing a call boundary: dynamic in the implementation, undocumented
        finally:
            self.depth -= 1

    # ------------------------------------------------------------ for loops
    def match(self, pat, v, ee):
        """does v match the pattern? names are declared in ee (discarded by the caller when the match fails)"""
        if pat[0] == "plit":
            if isinstance(v, (Closure, Builtin, ErrVal)):
                raise Skip()
            return bool(truthy(self.binop("==", v, pat[1])))
        if pat[0] == "pname":
            ee.declare(pat[1], v)
            return True
        if pat[0] == "plistl":      # [names..., literal]: names bound so far are discarded with the arm's scope when the literal fails
            if isinstance(v, int) and not isinstance(v, bool):
                return False
            if not isinstance(v, list):
                raise Skip()
            if len(v) != len(pat[1]) + 1 or any(isinstance(x_, (Closure, Builtin, ErrVal)) for x_ in v) or not truthy(self.binop("==", v[-1], pat[2])):
                return False
            for n_, x_ in zip(pat[1], v):
                ee.declare(n_, x_)
            return True
        if pat[0] == "plist":
            if not isinstance(v, list) or len(v) != len(pat[1]):
                if isinstance(v, (str, ErrVal)):
                    raise Skip()
                return False
            for n_, x_ in zip(pat[1], v):
                ee.declare(n_, x_)
            return True
        return True


    def ev_for(self, e, env):
        clauses, body = e[1], e[2]
        kind = body[0]
        if kind == "do":
            def cb(ee):
                self.ev(body[1], ee)
            try:
                self.run_clauses(clauses, env, cb)
            except Break as b:
                if b.n == 0:
                    return b.v if b.has else None
                raise Break(b.n - 1, b.v, b.has)
            except Continue as c:
                if c.n != 0:
                    raise Continue(c.n - 1)
                raise
            return None
        into = None
        post = None
        if body[-1] is not None:
            intov = self.ev(body[-1], env)
            if isinstance(intov, Builtin) and intov.name in ("sum", "count", "max", "min", "first", "last", "any", "all"):
                into = intov.name
            elif isinstance(intov, (Closure, Builtin)):
                post = intov
            else:
                post = intov
        if kind == "yield":
            cata = Cata(self, into)

            def cb(ee):
                cata.give(self.ev(body[1], ee))
            try:
                self.run_clauses(clauses, env, cb)
                res = cata.finish()
            except Break as b:
                if b.n == 0:
                    res = b.v if b.has else cata.finish()
                else:
                    raise Break(b.n - 1, b.v, b.has)
            except Continue as c:
                if c.n != 0:
                    raise Continue(c.n - 1)
                raise
            if post is not None:
                return self.call(post, [res], env)
            return res
        if kind == "yieldkv":
            acc = {}
            done = {}

            def cb(ee):
                k = self.ev(body[1], ee)
                if not isinstance(k, (int, str)) and k is not None:
                    if isinstance(k, list):
                        raise Skip()
                    raise Throw(ERR)
                if k in done:
                    return
                v = self.ev(body[2], ee)      # a value expression that leaves the iteration (continue / break) registers nothing for its key
                if k not in acc:
                    acc[k] = Cata(self, into if into else ("list" if post is not None else "last"))
                try:
                    acc[k].give(v)
                except Break as b:
                    if b.n == 0 and b.has and b.from_cata:
                        done[k] = b.v
                    else:
                        raise
            try:
                self.run_clauses(clauses, env, cb)
            except Break as b:
                if b.n == 0:
                    if b.has:
                        return b.v
                else:
                    raise Break(b.n - 1, b.v, b.has)
            except Continue as c:
                if c.n != 0:
                    raise Continue(c.n - 1)
                raise
            out = {}
            for k, c in acc.items():
                if k in done:
                    out[k] = done[k]
                else:
                    v = c.finish()
                    out[k] = self.call(post, [v], env) if post is not None else v
            return out
        raise KeyError(kind)

    def run_clauses(self, clauses, env, cb):
        if not clauses:
            try:
                cb(env)
            except Continue as c:
                if c.n == 0:
                    return
                raise
            return
        c, rest = clauses[0], clauses[1:]
        if c[0] == "each":
            it = self.ev(c[2], env)
            for x in self.iterate(it):
                self.tick()
                ee = Env(env)
                ee.declare(c[1], x)
                self.run_clauses(rest, ee, cb)
        elif c[0] == "item":
            it = self.ev(c[3], env)
            if isinstance(it, ErrVal):
                raise Skip()
            if isinstance(it, list):
                pairs = [[i, x] for i, x in enumerate(it)]
            elif isinstance(it, dict):
                raise Skip()
            elif isinstance(it, str):
                pairs = [[i, ch] for i, ch in enumerate(it)]
            else:
                raise Throw(ERR)
            for k, v in pairs:
                self.tick()
                ee = Env(env)
                if c[1] == c[2]:
                    raise Throw(ERR)
                ee.declare(c[1], k)
                ee.declare(c[2], v)
                self.run_clauses(rest, ee, cb)
        elif c[0] == "let":
            v = self.ev(c[2], env)
            ee = Env(env)
            ee.declare(c[1], v)
            self.run_clauses(rest, ee, cb)
        elif c[0] == "guard":
            if truthy(self.ev(c[1], env)):
                self.run_clauses(rest, env, cb)
        else:
            raise KeyError(c)

    def iterate(self, it):
        if isinstance(it, ErrVal):
            raise Skip()          # iterating over an error message string
        if isinstance(it, list):
            return list(it)
        if isinstance(it, str):
            return list(it)
        if isinstance(it, dict):
            raise Skip()
        raise Throw(ERR)


class Cata:
    def __init__(self, interp, kind):
        self.kind = kind or "list"
        self.items = []
        self.state = None
        self.n = 0
        self.I = interp

    def brk(self, v):
        b = Break(0, v, True)
        b.from_cata = True
        return b

    def give(self, v):
        k = self.kind
        if k == "list":
            self.items.append(v)
        elif k == "sum":
            self.state = self.I.binop("+", 0 if self.n == 0 else self.state, v)
        elif k == "count":
            self.state = (self.state or 0) + (1 if truthy(v) else 0)
        elif k in ("max", "min"):
            if self.n == 0:
                self.state = v
            else:
                if not (isinstance(v, int) and isinstance(self.state, int)):
                    if isinstance(v, (Closure, Builtin, ErrVal)) or isinstance(self.state, (Closure, Builtin, ErrVal)):
                        raise Skip()
                    if type(v) == type(self.state) and isinstance(v, str):
                        pass
                    else:
                        raise Throw(ERR) if not (isinstance(v, list) and isinstance(self.state, list)) else Skip()
                if (k == "max" and v > self.state) or (k == "min" and v < self.state):
                    self.state = v
        elif k == "first":
            raise self.brk(v)
        elif k == "last":
            self.state = v
        elif k == "any":
            if truthy(v):
                raise self.brk(1)
        elif k == "all":
            if not truthy(v):
                raise self.brk(0)
        self.n += 1

    def finish(self):
        k = self.kind
        if k == "list":
            return self.items
        if k == "sum":
            return 0 if self.n == 0 else self.state
        if k == "count":
            return self.state or 0
        if k in ("max", "min", "first", "last"):
            if self.n == 0:
                raise Throw(ERR)
            return self.state
        if k == "any":
            return 0
        if k == "all":
            return 1
        raise KeyError(k)


Break.from_cata = False


def run(prog, budget=4000, setup=None):
    """-> (outcome, value, output)"""
    I = Interp(budget)
    env = Env()
    try:
        if setup:
            for s in setup:
                I.ev(s, env)
        v = I.ev(prog, env)
        return ("value", v, "".join(I.out))
    except (Throw, Break, Continue, Return):
        try:
            return ("raised", None, "".join(I.out))
        except Skip:
            return ("skip", None, "")
    except Skip:
        return ("skip", None, "")
    except RecursionError:
        return ("skip", None, "")


def contains_unmodelled(v):
    if isinstance(v, (ErrVal,)):
        return True
    if isinstance(v, list):
        return any(contains_unmodelled(x) for x in v)
    if isinstance(v, dict):
        return any(contains_unmodelled(x) for x in v.values())
    return False


def to_canon(v):
    """python reference value -> canon (functions become the placeholder "FUNC")"""
    if v is None:
        return None
    if isinstance(v, bool):
        return ["i", str(int(v))]
    if isinstance(v, int):
        return ["i", str(v)]
    if isinstance(v, str):
        return ["s", v]
    if isinstance(v, list):
        return ["l", [to_canon(x) for x in v]]
    if isinstance(v, dict):
        return ["d", [[to_canon(k), to_canon(x)] for k, x in v.items()]]
    if isinstance(v, (Closure, Builtin)):
        return "FUNC"
    raise TypeError(v)


# ---------------------------------------------------------------- rendering to noulith source
def render(e):
    t = e[0]
    if t == "int":
        return str(e[1]) if e[1] >= 0 else "(%d)" % e[1]
    if t == "null":
        return "null"
    if t == "str":
        return '"%s"' % e[1]
    if t == "var":
        return e[1]
    if t == "list":
        return "[%s]" % ", ".join(render(x) for x in e[1])
    if t == "bin":
        return "(%s %s %s)" % (render(e[2]), e[1], render(e[3]))
    if t == "decl":
        return "(%s := %s)" % (e[1], render(e[2]))
    if t == "set":
        return "(%s = %s)" % (e[1], render(e[2]))
    if t == "opset":
        return "(%s %s= %s)" % (e[1], e[2], render(e[3]))
    if t == "seq":
        return "(%s)" % "; ".join(render(x) for x in e[1])
    if t == "if":
        if e[3] is None:
            return "(if (%s) %s)" % (render(e[1]), render(e[2]))
        return "(if (%s) %s else %s)" % (render(e[1]), render(e[2]), render(e[3]))
    if t == "while":
        return "(while (%s) %s)" % (render(e[1]), render(e[2]))
    if t == "for":
        cl = []
        for c in e[1]:
            if c[0] == "each":
                cl.append("%s <- %s" % (c[1], render(c[2])))
            elif c[0] == "item":
                cl.append("%s, %s <<- %s" % (c[1], c[2], render(c[3])))
            elif c[0] == "let":
                cl.append("%s := %s" % (c[1], render(c[2])))
            elif c[0] == "guard":
                cl.append("if %s" % render(c[1]))
        b = e[2]
        if b[0] == "do":
            body = render(b[1])
        elif b[0] == "yield":
            body = "yield %s" % render(b[1]) + (" into %s" % render(b[2]) if b[2] is not None else "")
        else:
            body = "yield %s: %s" % (render(b[1]), render(b[2])) + (" into %s" % render(b[3]) if b[3] is not None else "")
        return "(for (%s) %s)" % ("; ".join(cl), body)
    if t == "break":
        s = " ".join(["break"] * (e[1] + 1))
        return "(%s)" % s if e[2] is None else "(%s %s)" % (s, render(e[2]))
    if t == "continue":
        return "(%s)" % " ".join(["break"] * e[1] + ["continue"])
    if t == "return":
        return "(return)" if e[1] is None else "(return %s)" % render(e[1])
    if t == "throw":
        return "(throw %s)" % render(e[1])
    def rp(p):
        if p[0] == "plistl":
            return "[%s]" % ", ".join(list(p[1]) + [str(p[2])])
        return str(p[1]) if p[0] == "plit" else (p[1] if p[0] == "pname" else ("_" if p[0] == "pwild" else "[%s]" % ", ".join(p[1])))
    if t == "try":
        return "(try %s catch %s -> %s)" % (render(e[1]), rp(e[2]) if isinstance(e[2], (tuple, list)) else e[2], render(e[3]))
    if t == "switch":
        return "(switch (%s) %s)" % (render(e[1]), " ".join("case %s -> %s" % (rp(p), render(b)) for p, b in e[2]))
    if t in ("and", "or", "coalesce"):
        return "(%s %s %s)" % (render(e[1]), t, render(e[2]))
    if t == "lambda":
        ps = []
        for p in e[1]:
            if p[0] == "p":
                ps.append(p[1])
            elif p[0] == "pd":
                ps.append("%s = %s" % (p[1], render(p[2])))
            else:
                ps.append("...%s" % p[1])
        return "(\\%s -> %s)" % (", ".join(ps), render(e[2]))
    if t == "call":
        return "%s(%s)" % (render(e[1]), ", ".join(render(a) for a in e[2]))
    if t == "print":
        return "print(%s)" % render(e[1])
    if t == "eval":
        return "eval(%s)" % quote(render(e[1]))
    raise KeyError(t)


def quote(s):
    return '"' + s.replace("\\", "\\\\").replace('"', '\\"') + '"'
