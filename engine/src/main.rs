// nlx: the real-code engine of the /verif explorers.
//
// Reads one JSON request per line on stdin, runs the requested noulith sources on the real
// interpreter (crate `noulith`, path = /repo, built from the current working tree with
// `--cfg betaveros_noulith_verif`), and answers one JSON line per request, flushed at once so
// that a crash or hang is attributed to exactly the first unanswered request.
//
// Nothing here re-implements interpreter behaviour: the engine only parses, evaluates and
// *inspects* (canonical serialisation of values, Rc sharing shape, allocation counters,
// captured output, panic sites).

use noulith::nnum::NNum;
use noulith::{
    evaluate, initialize, parse, Assoc, Env, Func, NErr, Obj, Precedence, Seq, TopEnv,
    WriteMaybeExtractable,
};
use serde_json::{json, Value};
use std::alloc::{GlobalAlloc, Layout, System};
use std::cell::RefCell;
use std::collections::HashMap;
use std::io::{BufRead, Write};
use std::panic::{catch_unwind, AssertUnwindSafe};
use std::rc::Rc;
use std::sync::atomic::{AtomicU64, AtomicUsize, Ordering};
use std::sync::Mutex;

// ---------------------------------------------------------------- counting allocator
static THRESH: AtomicUsize = AtomicUsize::new(usize::MAX);
static BIG_ALLOCS: AtomicU64 = AtomicU64::new(0);
static BIG_BYTES: AtomicU64 = AtomicU64::new(0);
static BIG_REALLOCS: AtomicU64 = AtomicU64::new(0);
static TOTAL_BYTES: AtomicU64 = AtomicU64::new(0);
static TOTAL_ALLOCS: AtomicU64 = AtomicU64::new(0);

struct Counting;
unsafe impl GlobalAlloc for Counting {
    unsafe fn alloc(&self, l: Layout) -> *mut u8 {
        TOTAL_BYTES.fetch_add(l.size() as u64, Ordering::Relaxed);
        TOTAL_ALLOCS.fetch_add(1, Ordering::Relaxed);
        if l.size() >= THRESH.load(Ordering::Relaxed) {
            BIG_ALLOCS.fetch_add(1, Ordering::Relaxed);
            BIG_BYTES.fetch_add(l.size() as u64, Ordering::Relaxed);
        }
        System.alloc(l)
    }
    unsafe fn dealloc(&self, p: *mut u8, l: Layout) {
        System.dealloc(p, l)
    }
    unsafe fn alloc_zeroed(&self, l: Layout) -> *mut u8 {
        TOTAL_BYTES.fetch_add(l.size() as u64, Ordering::Relaxed);
        TOTAL_ALLOCS.fetch_add(1, Ordering::Relaxed);
        if l.size() >= THRESH.load(Ordering::Relaxed) {
            BIG_ALLOCS.fetch_add(1, Ordering::Relaxed);
            BIG_BYTES.fetch_add(l.size() as u64, Ordering::Relaxed);
        }
        System.alloc_zeroed(l)
    }
    unsafe fn realloc(&self, p: *mut u8, l: Layout, new_size: usize) -> *mut u8 {
        if new_size > l.size() {
            TOTAL_BYTES.fetch_add((new_size - l.size()) as u64, Ordering::Relaxed);
        }
        if new_size >= THRESH.load(Ordering::Relaxed) {
            BIG_REALLOCS.fetch_add(1, Ordering::Relaxed);
        }
        System.realloc(p, l, new_size)
    }
}
#[global_allocator]
static GLOBAL: Counting = Counting;

fn alloc_reset() {
    BIG_ALLOCS.store(0, Ordering::Relaxed);
    BIG_BYTES.store(0, Ordering::Relaxed);
    BIG_REALLOCS.store(0, Ordering::Relaxed);
    TOTAL_BYTES.store(0, Ordering::Relaxed);
    TOTAL_ALLOCS.store(0, Ordering::Relaxed);
}
fn alloc_read() -> Value {
    json!([
        BIG_ALLOCS.load(Ordering::Relaxed),
        BIG_BYTES.load(Ordering::Relaxed),
        BIG_REALLOCS.load(Ordering::Relaxed),
        TOTAL_BYTES.load(Ordering::Relaxed),
        TOTAL_ALLOCS.load(Ordering::Relaxed)
    ])
}

// ---------------------------------------------------------------- panic capture
static LAST_PANIC: Mutex<Option<String>> = Mutex::new(None);

fn install_panic_hook() {
    std::panic::set_hook(Box::new(|info| {
        let msg = if let Some(s) = info.payload().downcast_ref::<&str>() {
            s.to_string()
        } else if let Some(s) = info.payload().downcast_ref::<String>() {
            s.clone()
        } else {
            "<non-string panic>".to_string()
        };
        let loc = info
            .location()
            .map(|l| format!("{}:{}", l.file(), l.line()))
            .unwrap_or_else(|| "?".to_string());
        if let Ok(mut g) = LAST_PANIC.lock() {
            *g = Some(format!("{} @ {}", msg, loc));
        }
    }));
}
fn take_panic() -> String {
    LAST_PANIC
        .lock()
        .ok()
        .and_then(|mut g| g.take())
        .unwrap_or_else(|| "<unknown panic>".to_string())
}

// ---------------------------------------------------------------- output sink
#[derive(Clone)]
struct Sink(Rc<RefCell<Vec<u8>>>);
impl Write for Sink {
    fn write(&mut self, buf: &[u8]) -> std::io::Result<usize> {
        let mut b = self.0.borrow_mut();
        if b.len() < (1 << 20) {
            b.extend_from_slice(buf);
        }
        Ok(buf.len())
    }
    fn flush(&mut self) -> std::io::Result<()> {
        Ok(())
    }
}
impl WriteMaybeExtractable for Sink {}

// ---------------------------------------------------------------- canonical values
struct Canon {
    cap: usize,
    shape: bool,
    ids: HashMap<usize, usize>,
}

// Payloads longer than this are summarised as [tag, "...", len, hash] (0 = never). Set per request.
static ABBREV: AtomicUsize = AtomicUsize::new(0);

fn abbreviate(v: Value) -> Value {
    let n = ABBREV.load(Ordering::Relaxed);
    if n == 0 {
        return v;
    }
    if let Value::Array(a) = &v {
        if a.len() >= 2 {
            let len = match &a[1] {
                Value::Array(xs) => xs.len(),
                Value::String(st) => st.len(),
                _ => 0,
            };
            if len > n {
                let text = a[1].to_string();
                let mut h: u64 = 0xcbf29ce484222325;
                for b in text.as_bytes() {
                    h ^= *b as u64;
                    h = h.wrapping_mul(0x100000001b3);
                }
                let mut out = vec![a[0].clone(), json!("..."), json!(len), json!(format!("{:016x}", h))];
                if a.len() > 2 {
                    out.push(a[2].clone());
                }
                return Value::Array(out);
            }
        }
    }
    v
}

fn num_canon(n: &NNum) -> Value {
    match n {
        NNum::Int(i) => {
            let big = format!("{:?}", i).starts_with("Big");
            json!([if big { "I" } else { "i" }, format!("{}", n.to_string())])
        }
        NNum::Rational(r) => json!(["q", r.numer().to_string(), r.denom().to_string()]),
        NNum::Float(f) => json!(["f", format!("{:016x}", f.to_bits())]),
        NNum::Complex(c) => json!([
            "c",
            format!("{:016x}", c.re.to_bits()),
            format!("{:016x}", c.im.to_bits())
        ]),
    }
}

impl Canon {
    fn new(cap: usize, shape: bool) -> Canon {
        Canon { cap, shape, ids: HashMap::new() }
    }
    // In shape mode every Rc payload is wrapped as ["#", id, strong_count, inner] on first
    // visit and ["@", id] afterwards.
    fn wrap(&mut self, ptr: usize, count: usize, inner: impl FnOnce(&mut Canon) -> Value) -> Value {
        if !self.shape {
            return abbreviate(inner(self));
        }
        if let Some(id) = self.ids.get(&ptr) {
            return json!(["@", id]);
        }
        let id = self.ids.len();
        self.ids.insert(ptr, id);
        let v = abbreviate(inner(self));
        json!(["#", id, count, v])
    }
    fn obj(&mut self, o: &Obj) -> Value {
        match o {
            Obj::Null => Value::Null,
            Obj::Num(n) => num_canon(n),
            Obj::Seq(s) => self.seq(s),
            Obj::Func(f, p) => {
                let pr = if p.0.is_nan() { json!("nan") } else { json!(p.0) };
                let a = match p.1 {
                    Assoc::Left => "L",
                    Assoc::Right => "R",
                };
                json!(["F", format!("{}", f), pr, a])
            }
            Obj::Instance(s, fields) => {
                let fs: Vec<Value> = fields.iter().map(|x| self.obj(x)).collect();
                json!(["o", s.name.as_str(), fs])
            }
        }
    }
    fn seq(&mut self, s: &Seq) -> Value {
        match s {
            Seq::String(r) => {
                let (p, c) = (Rc::as_ptr(r) as *const u8 as usize, Rc::strong_count(r));
                self.wrap(p, c, |_| json!(["s", r.as_str()]))
            }
            Seq::List(r) => {
                let (p, c) = (Rc::as_ptr(r) as *const u8 as usize, Rc::strong_count(r));
                self.wrap(p, c, |me| {
                    let xs: Vec<Value> = r.iter().map(|x| me.obj(x)).collect();
                    json!(["l", xs])
                })
            }
            Seq::Vector(r) => {
                let (p, c) = (Rc::as_ptr(r) as *const u8 as usize, Rc::strong_count(r));
                self.wrap(p, c, |_| {
                    let xs: Vec<Value> = r.iter().map(num_canon).collect();
                    json!(["v", xs])
                })
            }
            Seq::Bytes(r) => {
                let (p, c) = (Rc::as_ptr(r) as *const u8 as usize, Rc::strong_count(r));
                self.wrap(p, c, |_| json!(["b", r.as_slice()]))
            }
            Seq::Dict(r, def) => {
                let (p, c) = (Rc::as_ptr(r) as *const u8 as usize, Rc::strong_count(r));
                self.wrap(p, c, |me| {
                    // entries are ordered by canonical key *before* the values are visited, so that
                    // sharing ids are assigned in output order (hash iteration order is random)
                    let mut ents: Vec<(String, Value, &Obj)> = r
                        .iter()
                        .map(|(k, v)| {
                            // keys are canonicalised without sharing annotations
                            let ko = noulith::key_to_obj(k.clone());
                            let kc = Canon::new(me.cap, false).obj(&ko);
                            (kc.to_string(), kc, v)
                        })
                        .collect();
                    ents.sort_by(|a, b| a.0.cmp(&b.0));
                    let es: Vec<Value> = ents.into_iter().map(|(_, k, v)| json!([k, me.obj(v)])).collect();
                    // the default is visited after the entries, in output order
                    let d = match def {
                        Some(b) => Some(me.obj(b)),
                        None => None,
                    };
                    match d {
                        Some(dv) => json!(["d", es, dv]),
                        None => json!(["d", es]),
                    }
                })
            }
            Seq::Stream(r) => {
                let (p, c) = (Rc::as_ptr(r) as *const u8 as usize, Rc::strong_count(r));
                self.wrap(p, c, |me| {
                    let disp = format!("{}", r);
                    let mut it = r.clone_box();
                    let mut xs: Vec<Value> = Vec::new();
                    let mut done = false;
                    let mut failed = false;
                    for _ in 0..me.cap {
                        match it.next() {
                            None => {
                                done = true;
                                break;
                            }
                            Some(Ok(x)) => xs.push(Canon::new(me.cap, false).obj(&x)),
                            Some(Err(_)) => {
                                failed = true;
                                break;
                            }
                        }
                    }
                    let tail = if failed {
                        "err"
                    } else if done {
                        "end"
                    } else {
                        "more"
                    };
                    json!(["S", disp, xs, tail])
                })
            }
        }
    }
}

// ---------------------------------------------------------------- the server
struct Server {
    sink: Sink,
    pristine: Rc<RefCell<Env>>, // a fully initialised global env that programs never run in directly
    current: Option<Rc<RefCell<Env>>>,
}

fn new_full_env(sink: &Sink) -> Rc<RefCell<Env>> {
    let mut env = Env::new(
        TopEnv {
            backrefs: Vec::new(),
            input: Box::new(std::io::empty()),
            output: Box::new(sink.clone()),
        },
        false,
    );
    initialize(&mut env);
    Rc::new(RefCell::new(env))
}

fn copy_globals(p: &Rc<RefCell<Env>>) -> Rc<RefCell<Env>> {
    let src = p.borrow();
    let mut vars = HashMap::with_capacity(src.vars.len());
    for (k, (ty, cell)) in src.vars.iter() {
        vars.insert(k.clone(), (ty.clone(), Box::new(RefCell::new(cell.borrow().clone()))));
    }
    let parent = match &src.parent {
        Ok(e) => Ok(Rc::clone(e)),
        Err(t) => Err(Rc::clone(t)),
    };
    Rc::new(RefCell::new(Env { vars, parent, internal_stack: Vec::new(), allow_redeclaration: false }))
}

enum Outcome {
    Ok(Obj),
    Throw(Obj),
    Control(&'static str),
    ParseError(String),
    Empty,
    Panic(String),
}

fn run_src(env: &Rc<RefCell<Env>>, src: &str) -> Outcome {
    let r = catch_unwind(AssertUnwindSafe(|| match parse(src) {
        Ok(Some(e)) => match evaluate(env, &e) {
            Ok(v) => Outcome::Ok(v),
            Err(NErr::Throw(o, _)) => Outcome::Throw(o),
            Err(NErr::Break(..)) => Outcome::Control("break"),
            Err(NErr::Continue(..)) => Outcome::Control("continue"),
            Err(NErr::Return(..)) => Outcome::Control("return"),
        },
        Ok(None) => Outcome::Empty,
        Err(pe) => Outcome::ParseError(pe.0),
    }));
    match r {
        Ok(o) => o,
        Err(_) => Outcome::Panic(take_panic()),
    }
}

impl Server {
    fn take_output(&self) -> String {
        let mut b = self.sink.0.borrow_mut();
        let s = String::from_utf8_lossy(&b).to_string();
        b.clear();
        s
    }

    fn dump(&self, env: &Rc<RefCell<Env>>, names: &[String], shape: bool, cap: usize) -> Value {
        let mut canon = Canon::new(cap, shape);
        let mut m = serde_json::Map::new();
        let e = env.borrow();
        for n in names {
            let v = match e.vars.get(n) {
                Some((_, cell)) => match cell.try_borrow() {
                    Ok(o) => canon.obj(&o),
                    Err(_) => json!(["borrowed"]),
                },
                None => json!(["absent"]),
            };
            m.insert(n.clone(), v);
        }
        Value::Object(m)
    }

    fn handle(&mut self, req: &Value) -> Value {
        let cap = req.get("cap").and_then(|x| x.as_u64()).unwrap_or(64) as usize;
        let fuel = req.get("fuel").and_then(|x| x.as_u64()).unwrap_or(200_000);
        let depth = req.get("depth").and_then(|x| x.as_u64()).unwrap_or(150) as u32;
        let iso = req.get("iso").and_then(|x| x.as_bool()).unwrap_or(false);
        let stop = req.get("stop_on_error").and_then(|x| x.as_bool()).unwrap_or(false);
        let shape = req.get("shape").and_then(|x| x.as_bool()).unwrap_or(false);
        let want_alloc = req.get("alloc_thresh").and_then(|x| x.as_u64());
        let compact = req.get("compact").and_then(|x| x.as_bool()).unwrap_or(false);
        let parse_only = req.get("parse_only").and_then(|x| x.as_bool()).unwrap_or(false);
        ABBREV.store(req.get("abbrev").and_then(|x| x.as_u64()).unwrap_or(0) as usize, Ordering::Relaxed);
        let dump_names: Vec<String> = req
            .get("dump")
            .and_then(|x| x.as_array())
            .map(|a| a.iter().filter_map(|x| x.as_str().map(|s| s.to_string())).collect())
            .unwrap_or_default();

        // parse-only requests (C15): statuses for a list of sources
        // list the global environment (names, whether callable, display form)
        if req.get("globals").is_some() {
            let e = self.pristine.borrow();
            let mut names: Vec<&String> = e.vars.keys().collect();
            names.sort();
            let out: Vec<Value> = names
                .iter()
                .map(|n| {
                    let cell = &e.vars.get(*n).unwrap().1;
                    let o = cell.borrow();
                    let (callable, disp) = match &*o {
                        Obj::Func(f, _) => (true, format!("{}", f)),
                        other => (false, format!("{}", other)),
                    };
                    json!([n, callable, disp])
                })
                .collect();
            return json!({"id": req.get("id"), "globals": out});
        }

        if let Some(srcs) = req.get("parse").and_then(|x| x.as_array()) {
            let mut out = String::new();
            let mut panics = Vec::new();
            for (i, s) in srcs.iter().enumerate() {
                let s = s.as_str().unwrap_or("");
                let r = catch_unwind(AssertUnwindSafe(|| match parse(s) {
                    Ok(Some(_)) => 'o',
                    Ok(None) => 'n',
                    Err(_) => 'e',
                }));
                match r {
                    Ok(c) => out.push(c),
                    Err(_) => {
                        out.push('p');
                        panics.push(json!([i, take_panic()]));
                    }
                }
            }
            return json!({"id": req.get("id"), "parse": out, "panics": panics});
        }

        let mode = req.get("env").and_then(|x| x.as_str()).unwrap_or("child");
        let base: Rc<RefCell<Env>> = match mode {
            "full" => new_full_env(&self.sink),
            "keep" => match &self.current {
                Some(e) => e.clone(),
                None => Env::with_parent(&self.pristine),
            },
            // default: a child scope of a private copy of the globals, so that a program that
            // assigns to a builtin (`swap +, *`) cannot leak into later requests
            _ => Env::with_parent(&copy_globals(&self.pristine)),
        };
        self.current = Some(base.clone());
        self.take_output();
        noulith::verif_hooks::reset(fuel, depth);

        // bind: operator values with explicit precedence / associativity (C03)
        if let Some(binds) = req.get("bind").and_then(|x| x.as_array()) {
            for b in binds {
                let name = b.get("name").and_then(|x| x.as_str()).unwrap_or("");
                let src = b.get("src").and_then(|x| x.as_str()).unwrap_or("");
                let prec = match b.get("prec") {
                    Some(Value::String(s)) if s == "nan" => f64::NAN,
                    Some(v) => v.as_f64().unwrap_or(0.0),
                    None => 0.0,
                };
                let assoc = match b.get("assoc").and_then(|x| x.as_str()) {
                    Some("R") => Assoc::Right,
                    _ => Assoc::Left,
                };
                match run_src(&base, src) {
                    Outcome::Ok(Obj::Func(f, _)) => {
                        let f: Func = f;
                        let r = base.borrow_mut().insert(
                            name.to_string(),
                            noulith::ObjType::Any,
                            Obj::Func(f, Precedence(prec, assoc)),
                        );
                        if r.is_err() {
                            return json!({"id": req.get("id"), "pre_error": format!("bind {} failed: insert", name)});
                        }
                    }
                    _ => {
                        return json!({"id": req.get("id"), "pre_error": format!("bind {} failed", name)});
                    }
                }
            }
        }

        if let Some(pre) = req.get("pre").and_then(|x| x.as_array()) {
            for p in pre {
                let src = p.as_str().unwrap_or("");
                match run_src(&base, src) {
                    Outcome::Ok(_) | Outcome::Empty => {}
                    Outcome::Throw(o) => {
                        return json!({"id": req.get("id"), "pre_error": format!("throw in pre `{}`: {}", src, o)})
                    }
                    Outcome::Control(c) => {
                        return json!({"id": req.get("id"), "pre_error": format!("{} in pre `{}`", c, src)})
                    }
                    Outcome::ParseError(m) => {
                        return json!({"id": req.get("id"), "pre_error": format!("parse error in pre `{}`: {}", src, m)})
                    }
                    Outcome::Panic(m) => {
                        return json!({"id": req.get("id"), "pre_error": format!("panic in pre `{}`: {}", src, m)})
                    }
                }
            }
        }
        self.take_output();

        let step_ms = req.get("step_ms").and_then(|x| x.as_u64()).unwrap_or(4000);
        let mut nresults = 0usize;
        if let Some(steps) = req.get("steps").and_then(|x| x.as_array()) {
            for st in steps {
                let src = st.as_str().unwrap_or("");
                watchdog_arm(step_ms);
                let env = if iso { Env::with_parent(&base) } else { base.clone() };
                noulith::verif_hooks::reset(fuel, depth);
                if let Some(t) = want_alloc {
                    THRESH.store(t as usize, Ordering::Relaxed);
                    alloc_reset();
                }
                let oc = if parse_only {
                    match catch_unwind(AssertUnwindSafe(|| parse(src))) {
                        Ok(Ok(_)) => Outcome::Empty,
                        Ok(Err(pe)) => Outcome::ParseError(pe.0),
                        Err(_) => Outcome::Panic(take_panic()),
                    }
                } else {
                    run_src(&env, src)
                };
                let alloc = if want_alloc.is_some() {
                    let a = alloc_read();
                    THRESH.store(usize::MAX, Ordering::Relaxed);
                    Some(a)
                } else {
                    None
                };
                let used = noulith::verif_hooks::steps();
                let exhausted = noulith::verif_hooks::exhausted();
                // canonicalisation may run closures (lazy streams): give it its own budget
                noulith::verif_hooks::reset(fuel, depth);
                let mut r = serde_json::Map::new();
                let mut failed = true;
                if exhausted {
                    r.insert("st".into(), json!("fuel"));
                } else {
                    match oc {
                        Outcome::Ok(v) => {
                            failed = false;
                            r.insert("st".into(), json!("ok"));
                            let cv = catch_unwind(AssertUnwindSafe(|| Canon::new(cap, false).obj(&v)));
                            match cv {
                                Ok(cv) => {
                                    r.insert("v".into(), cv);
                                }
                                Err(_) => {
                                    r.insert("st".into(), json!("panic"));
                                    r.insert("e".into(), json!(format!("in canon: {}", take_panic())));
                                    failed = true;
                                }
                            }
                            // drop the value before dumping so it does not perturb counts
                            drop(v);
                        }
                        Outcome::Empty => {
                            failed = false;
                            r.insert("st".into(), json!("ok"));
                            r.insert("v".into(), Value::Null);
                        }
                        Outcome::Throw(o) => {
                            r.insert("st".into(), json!("throw"));
                            r.insert("e".into(), json!(format!("{}", o)));
                            if !compact {
                                r.insert("ev".into(), Canon::new(cap, false).obj(&o));
                            }
                        }
                        Outcome::Control(c) => {
                            r.insert("st".into(), json!("control"));
                            r.insert("e".into(), json!(c));
                        }
                        Outcome::ParseError(m) => {
                            r.insert("st".into(), json!("parse_error"));
                            r.insert("e".into(), json!(m));
                        }
                        Outcome::Panic(m) => {
                            r.insert("st".into(), json!("panic"));
                            r.insert("e".into(), json!(m));
                        }
                    }
                }
                let out = self.take_output();
                if !out.is_empty() {
                    r.insert("o".into(), json!(out));
                }
                if let Some(a) = alloc {
                    r.insert("a".into(), a);
                }
                if !compact {
                    r.insert("n".into(), json!(used));
                }
                if !dump_names.is_empty() {
                    let d = catch_unwind(AssertUnwindSafe(|| self.dump(&env, &dump_names, shape, cap)));
                    match d {
                        Ok(d) => {
                            r.insert("d".into(), d);
                        }
                        Err(_) => {
                            r.insert("d".into(), json!({"__panic": take_panic()}));
                        }
                    }
                    self.take_output();
                }
                watchdog_disarm();
                // one flushed line per step: a death is attributed to the first step without a line
                emit(&Value::Object(r));
                nresults += 1;
                if failed && stop {
                    break;
                }
            }
        }
        watchdog_disarm();
        json!({"id": req.get("id"), "done": nresults})
    }
}

fn emit(v: &Value) {
    let stdout = std::io::stdout();
    let mut o = stdout.lock();
    let _ = writeln!(o, "{}", v);
    let _ = o.flush();
}

// ---------------------------------------------------------------- watchdog
// Deadline (ms since start) of the step being evaluated, 0 = disarmed. A step that overruns it
// (a loop inside Rust code that never reaches the fuel hook) gets a `{"watchdog":true}` line and
// the process exits; the explorer restarts the engine and continues after that step.
static DEADLINE_MS: AtomicU64 = AtomicU64::new(0);
static START: std::sync::OnceLock<std::time::Instant> = std::sync::OnceLock::new();

fn now_ms() -> u64 {
    START.get_or_init(std::time::Instant::now).elapsed().as_millis() as u64 + 1
}
fn watchdog_arm(ms: u64) {
    DEADLINE_MS.store(now_ms() + ms, Ordering::SeqCst);
}
fn watchdog_disarm() {
    DEADLINE_MS.store(0, Ordering::SeqCst);
}
fn spawn_watchdog() {
    std::thread::spawn(|| loop {
        std::thread::sleep(std::time::Duration::from_millis(15));
        let d = DEADLINE_MS.load(Ordering::SeqCst);
        if d != 0 && now_ms() > d {
            emit(&json!({"watchdog": true}));
            std::process::exit(3);
        }
    });
}

fn serve() {
    install_panic_hook();
    spawn_watchdog();
    let sink = Sink(Rc::new(RefCell::new(Vec::new())));
    let pristine = new_full_env(&sink);
    let mut server = Server { sink, pristine, current: None };
    let stdin = std::io::stdin();
    let stdout = std::io::stdout();
    let mut line = String::new();
    let mut lock = stdin.lock();
    loop {
        line.clear();
        match lock.read_line(&mut line) {
            Ok(0) | Err(_) => break,
            Ok(_) => {}
        }
        let t = line.trim();
        if t.is_empty() {
            continue;
        }
        let resp = match serde_json::from_str::<Value>(t) {
            Ok(req) => server.handle(&req),
            Err(e) => json!({"bad_request": e.to_string()}),
        };
        let _ = &stdout;
        emit(&resp);
    }
}

fn main() {
    // dev-profile evaluate() frames are large: run everything on a thread with a big stack.
    let stack = std::env::var("NLX_STACK_MB").ok().and_then(|s| s.parse::<usize>().ok()).unwrap_or(1024);
    let h = std::thread::Builder::new()
        .stack_size(stack << 20)
        .spawn(serve)
        .expect("spawn");
    let _ = h.join();
}
