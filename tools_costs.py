#!/usr/bin/env python3
"""Print a markdown table of what the last quick run (evidence/) and the last thorough runs (evidence/thorough/) covered."""
import json
import os

rows = []
for i in range(1, 18):
    pid = "C%02d" % i
    cells = [pid]
    for d in ("evidence", "evidence/thorough"):
        f = os.path.join(os.path.dirname(os.path.abspath(__file__)), d, pid + ".json")
        if not os.path.exists(f):
            cells += ["-", "-", "-"]
            continue
        e = json.load(open(f))
        c = e["coverage"]
        cells += ["{:,}".format(c.get("cases", 0)), "{:,}".format(c.get("evaluations", 0)), "%.0f s" % e.get("wall_s", 0)]
    rows.append(cells)
print("| property | quick: cases | evaluations | wall | thorough: cases | evaluations | wall |")
print("|---|---|---|---|---|---|---|")
for r in rows:
    print("| " + " | ".join(r) + " |")
