# edited by hand; `python3 tools_manifest.py` regenerates MANIFEST.json
GRID_NOTE = "trusted: the Python reference (int/Fraction arithmetic), the engine's canonical serialiser, rustc; bounded to the stated pools"
CLAIMED = {
 "C06": ("exploration",
         "Every (operator, operand a, operand b) over a boundary pool of integers - each value in machine-word and big representation and produced by literal, ^, big difference, int(str) and bit-op routes - is evaluated on the real interpreter and compared with Python int arithmetic; the space is enumerated completely, not sampled.",
         GRID_NOTE, "bounded exhaustive input enumeration on the real interpreter vs Python-int reference model", "DESIGN.md §4 C06"),
}
NOT_YET = {("C%02d" % i): "check not built yet in this session (design in DESIGN.md §4); will be claimed when its explorer exists" for i in range(1, 18)}
