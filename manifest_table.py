# edited by hand; `python3 tools_manifest.py` regenerates MANIFEST.json
GRID_NOTE = ("trusted: the Python reference (int/Fraction/IEEE/list-slicing semantics), the engine's canonical serialiser, "
             "rustc; bounded to the stated pools and lengths (see evidence.coverage.bounds)")
GRID_TECH = "bounded exhaustive input enumeration on the real interpreter (16 engine processes) against a Python reference model"
CLAIMED = {
 "C06": ("exploration",
         "Every (operator, operand a, operand b) over a boundary pool of integers - each value in machine-word and big representation and produced by literal, ^, big difference, int(str) and bit-op routes - is evaluated on the real interpreter and compared with Python int arithmetic; the space is enumerated completely, not sampled.",
         GRID_NOTE, GRID_TECH, "DESIGN.md §4 C06"),
 "C07": ("exploration",
         "Every (operator, a, b) over a pool of all four numeric levels (ints of every size, fractions incl. integral-valued, floats incl. non-finite, complex), every conversion function and every vector/scalar shape is run on the real interpreter; exact levels are compared with Fraction arithmetic including the result level, float level bit-exactly with IEEE plus the in-interpreter coercion law.",
         GRID_NOTE, GRID_TECH, "DESIGN.md §4 C07"),
 "C08": ("exploration",
         "All ordered pairs of a pool of reals around 2^53/2^63/2^1024 (ints, fractions a hair away from floats, +-0, +-inf, subnormals) under all ten comparison forms, every list of length <= 4 over a sub-pool through sort/sort with comparator/sort_on/min/max, all pairs of short sequences and all pairs of kinds, compared with the exact rational order (stable sort, permutation, extremes, must-raise).",
         GRID_NOTE, GRID_TECH, "DESIGN.md §4 C08"),
 "C10": ("exploration",
         "Every (sequence kind, length 0..5, index or slice-bound pair in [-len-3, len+3] plus extremes around +-2^63 and beyond plus non-integers, access form) incl. sections, !! !? !%, the accessor builtins and the write forms is run on the real interpreter and compared with Python list/bytes indexing and slicing.",
         GRID_NOTE, GRID_TECH, "DESIGN.md §4 C10"),
 "C16": ("exploration",
         "Integers of the boundary pool in both representations through str/$/print/format strings in base 2, 8, 10, 16, int(str), number(str), repr+eval and str_radix/int_radix in every base 2..36; the decimal/scientific/p-over-q grammar through rational; every byte string up to the length bound through hex, base64, gzip and utf8; every Unicode scalar value through chr/ord (thorough); every JSON-shaped value of depth <= 2 through json_encode/decode, literal syntax and repr+eval - all compared with Python's codecs.",
         GRID_NOTE, GRID_TECH, "DESIGN.md §4 C16"),
 "C09": ("model_checking",
         "Explicit-state breadth-first search: from three start dictionaries (empty, with default, populated) every sequence up to depth 2 (quick) / 3 (thorough) of ten dictionary operations over a key pool holding several representatives of each ==-class is executed on the real interpreter; after every transition the dictionary contents (including which representative is stored) and a full battery of observations for every pool key are compared with a lock-step Python finite-map model. States are merged on the engine's canonical dump; an unmerged run one level shallower must give the same verdicts. Plus an exhaustive grid of key sequences through the constructor/aggregate builtins.",
         "trusted: the Python finite-map model (class table of the key pool), the engine's canonical dump of the dictionary, replay-from-scratch as state reconstruction; bounded by depth and key pool",
         "explicit-state BFS over operation histories of the real interpreter with lock-step reference model (every transition validated), state merging on canonical dumps", "DESIGN.md §4 C09, §3.3"),
 "C11": ("exploration",
         "Every finite stream constructor instance inside the parameter bounds (ranges with both step signs incl. the 2^63 neighbourhood, permutations/subsequences/combinations/cartesian powers, stream(seq), lazy map/filter/zip) at every drop position is observed through len, list, every index and slice in the window, reverse, first/last, in, truthiness, unpacking and for, and every sequence of up to 2-3 observations on one stream variable is replayed (variable unchanged, answers as on a fresh stream); infinite streams against their recurrences. Reference: Python range/itertools.",
         GRID_NOTE, "bounded exhaustive enumeration of constructor instances x drop positions x observations and of observation histories on the real interpreter against Python range/itertools", "DESIGN.md §4 C11"),
 "C13": ("exploration",
         "About 120 function forms of the sequence library (map/filter/reject/partition/flat_map/flatten/each/count/any/all/find/locate/take/drop with predicates, zip/ziplongest/pairwise/transpose/enumerate, fold/scan/sum/product/min/max, sort/sort_on/reverse/unique, group/group'/group_all/window/prefixes/suffixes/frequencies, ++ .+ +. ** ^^ join split words lines, permutations/combinations/subsequences) x seven input kinds x ALL sequences of length 0..3 (quick) / 0..5 (thorough) over 4-symbol alphabets with cross-level duplicates, compared with Python one-liners including kind preservation, stability and first-occurrence order.",
         GRID_NOTE, GRID_TECH, "DESIGN.md §4 C13"),
 "C14": ("fault_enumeration",
         "Every callable of the global environment (listed from the engine at run time; effectful ones excluded by name) is applied to every tuple of 0, 1 and 2 arguments over a pool of 34 values covering all kinds and boundary values and to every triple over a sub-pool, and ~75 statement templates (index/slice/field assignment, op-assignment, pop/remove, unpacking around splats, annotations, swap, switch, calls of non-functions ...) are filled with every pool combination; each case runs inside try/catch next to a witness variable and a follow-up computation. Panic, abort (engine death) and hang (watchdog) are captured per case.",
         "trusted: the engine's catch_unwind/watchdog/process-death attribution; bounded to the pool; cases with an infinite-stream or huge numeric argument are resource-bound and only tallied when they hang or exhaust memory",
         "exhaustive fault enumeration over (callable x argument tuples) and (statement template x fillings) on the real interpreter", "DESIGN.md §4 C14"),
 "C15": ("exploration",
         "Parser totality: all token sequences up to length 3/4 over a 58-token alphabet (spaced and glued), all character strings up to length 4/5 over a 22-character alphabet, every single-token deletion/duplication/replacement of every corpus program (suite one-liners, examples), nesting ramps to depth 64, all format-string bodies up to length 4/5 - parsed by the real parser with panic/hang/abort capture. Literal decoding: every pool integer in every integer syntax (decimal, 0x/0b/0o, NrDIGITS for radix 2..36, 64r), q/float/imaginary forms and every escape form of every string flavour, evaluated and compared with the spelled value.",
         GRID_NOTE, "bounded exhaustive enumeration of token/character strings and corpus mutations through the real lexer+parser, literal spellings through the evaluator", "DESIGN.md §4 C15"),
}
NOT_YET ={("C%02d" % i): "check not built yet in this session (design in DESIGN.md §4); will be claimed when its explorer exists" for i in range(1, 18)}
