#!/usr/bin/env python3
"""Confirm a seeded change written by a sub-agent and measure which checks catch it.

usage: tools_seed.py <seed-id> <worktree> <property> [check ...]
 1. in the scratch worktree: with the patch the pinned suite still gives its baseline and the
    demonstration fails; without the patch the demonstration passes;
 2. copies patch / demonstration / notes to /verif/seeded/<seed-id>/;
 3. applies the patch to /repo, runs the given quick checks (default: the property's own), undoes it;
 4. writes /verif/seeded/<seed-id>/meta.json.
"""
import json
import os
import re
import shutil
import subprocess
import sys
import time


def sh(cmd, cwd=None, timeout=3600):
    p = subprocess.run(cmd, shell=True, cwd=cwd, stdout=subprocess.PIPE, stderr=subprocess.STDOUT, text=True, timeout=timeout)
    return p.returncode, p.stdout


def suite(wt):
    rc, out = sh("cargo nextest run --workspace --no-fail-fast --offline --test-threads 8 -E 'not binary(seed_demo)' 2>&1 | grep -E 'Summary|FAIL |SIGABRT ' | sort -u", wt)
    m = re.search(r"(\d+) passed, (\d+) failed", out)
    failed = sorted(set(re.findall(r"(?:FAIL|SIGABRT) \[[^\]]*\] \(\d+/\d+\) (\S+ \S+)", out)))
    if m and int(m.group(2)) == 1 and not failed and "demos" in out:
        failed = ["noulith::test demos"]
    if m and int(m.group(2)) == 1 and not failed:
        rc2, out2 = sh("cargo nextest run --workspace --no-fail-fast --offline --test-threads 8 -E 'not binary(seed_demo)' 2>&1 | grep -E '(FAIL|SIGABRT) ' | head -3", wt)
        failed = sorted(set(re.findall(r"(?:FAIL|SIGABRT) \[[^\]]*\] \(\d+/\d+\) (\S+ \S+)", out2)))
    return (int(m.group(1)) if m else -1), failed, out.strip()


def demo(wt):
    rc, out = sh("cargo test --offline --test seed_demo 2>&1 | grep -E '^test result|^error' | head -3", wt)
    ok = "test result: ok" in out
    return ok, out.strip()


def main():
    sid, wt, prop = sys.argv[1:4]
    checks = sys.argv[4:] or [prop]
    dst = "/verif/seeded/%s" % sid
    os.makedirs(dst, exist_ok=True)
    patch = os.path.join(wt, "seed.patch")
    meta = {"id": sid, "property": prop, "confirmed_in": wt, "confirmed_at": time.strftime("%Y-%m-%dT%H:%M:%SZ", time.gmtime())}
    # regenerate the patch from the worktree to be sure it is what is applied
    rc, diff = sh("git diff -- src", wt)
    if diff.strip():
        open(patch, "w").write(diff)
    # 1. with the patch
    passed, failed, raw = suite(wt)
    meta["suite_with_patch"] = {"passed": passed, "failed": failed}
    d_with, raw_with = demo(wt)
    meta["demo_with_patch"] = "passes" if d_with else "fails"
    # without the patch
    rc, out = sh("git apply -R seed.patch", wt)
    if rc != 0:
        print("cannot reverse patch:", out)
        return 2
    d_without, raw_without = demo(wt)
    meta["demo_without_patch"] = "passes" if d_without else "fails"
    sh("git apply seed.patch", wt)
    ok = passed >= 49 and failed == ["noulith::test demos"] and (not d_with) and d_without
    meta["confirmed"] = ok
    for f in ("seed.patch", "SEED_NOTES.md"):
        if os.path.exists(os.path.join(wt, f)):
            shutil.copy(os.path.join(wt, f), os.path.join(dst, "patch.diff" if f == "seed.patch" else f))
    shutil.copy(os.path.join(wt, "tests", "seed_demo.rs"), os.path.join(dst, "seed_demo.rs"))
    notes = open(os.path.join(wt, "SEED_NOTES.md")).read() if os.path.exists(os.path.join(wt, "SEED_NOTES.md")) else ""
    meta["needs_to_manifest"] = notes[:1500]
    # 3. run our checks against it
    rc, out = sh("git -C /repo status --short | grep -v '^??' | head -3")
    if out.strip():
        print("/repo is not clean:", out)
        return 2
    rc, out = sh("git -C /repo apply %s" % os.path.join(dst, "patch.diff"))
    if rc != 0:
        print("patch does not apply to /repo:", out)
        return 2
    results = {}
    try:
        for c in checks:
            t0 = time.time()
            rc, out = sh("./check %s --tier quick" % c, "/verif")
            out = "\n".join(out.splitlines()[-400:])
            sigs = [l.split(" :: ")[0].replace("  violation detail: ", "") for l in out.splitlines() if "violation detail" in l]
            results[c] = {"exit": rc, "violations": len([l for l in out.splitlines() if l.startswith("VIOLATION")]), "first_signatures": sigs[:5],
                          "summary": [l for l in out.splitlines() if l.startswith("[" + c)][-1:] , "wall_s": round(time.time() - t0, 1)}
            print(c, "exit", rc, "violations", results[c]["violations"], sigs[:2])
    finally:
        sh("git -C /repo checkout -- .")
    meta["checks_run"] = results
    meta["caught_by"] = [c for c, r in results.items() if r["exit"] == 1]
    meta["what_i_ran"] = ["cargo nextest run --workspace --no-fail-fast --offline --test-threads 8 -E 'not binary(seed_demo)' (in the scratch worktree, patch applied)",
                          "cargo test --offline --test seed_demo (with and without the patch)",
                          "git -C /repo apply patch.diff; ./check <id> --tier quick; git -C /repo checkout -- ."]
    json.dump(meta, open(os.path.join(dst, "meta.json"), "w"), indent=1)
    print(json.dumps({k: meta[k] for k in ("id", "confirmed", "suite_with_patch", "demo_with_patch", "demo_without_patch", "caught_by")}))
    return 0


if __name__ == "__main__":
    sys.exit(main())
